#!/bin/sh
# offline setup: nothing to fetch or compile ahead of time; verify the tools the checks need
set -e
cd "$(dirname "$0")"
for t in tlc tla-sany gcc g++ m4 bison lex python3 make; do command -v $t >/dev/null || { echo "missing tool: $t"; exit 1; }; done
( cd spec && for m in MC_Product Trace_Scanner; do tla-sany $m.tla >/dev/null 2>&1 || { echo "spec $m does not parse"; exit 1; }; done )
python3 lib/vf/build.py >/dev/null
echo setup ok

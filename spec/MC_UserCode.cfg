SPECIFICATION Spec
INVARIANT Accepted
INVARIANT Verbatim
INVARIANT LineAccurate
INVARIANT GenLinesTrue
INVARIANT NolineClean
CHECK_DEADLOCK FALSE

--------------------------- MODULE FlexTablesFile ---------------------------
(***************************************************************************)
(* The serialized-tables container (manual node "Tables File Format") and  *)
(* what loading it may do (property C15).                                  *)
(*                                                                         *)
(* A file is a concatenation of table sets.  A set is                      *)
(*   th_magic (4, 0xF13C57B1) th_hsize (4) th_ssize (4) th_flags (2)       *)
(*   th_version (NUL-terminated) th_name (NUL-terminated) pad to 8         *)
(* followed by tables                                                      *)
(*   td_id (2) td_flags (2) td_hilen (4) td_lolen (4) data pad to 8        *)
(* all integers in network byte order; td_flags gives the element width    *)
(* (8/16/32 bits) and the shape (plain, PTRANS, STRUCT).                   *)
(*                                                                         *)
(* CASES: ndjson, one line [bytes, name, T (the in-code tables of the same *)
(* rule set and configuration, dumped by the scanner), obs].               *)
(* obs: Seq([k, rc, crash]) - what the real loader did on the first k      *)
(* bytes of the file (k = Len(bytes): the whole file).                     *)
(***************************************************************************)
EXTENDS Naturals, Integers, Sequences, FiniteSets, TLC, Json, IOUtils

Cases == ndJsonDeserialize(IOEnv.CASES)

U8(b, p)  == b[p + 1]                                   \* p: 0-based offset
U16(b, p) == b[p + 1] * 256 + b[p + 2]
\* 32-bit quantities are kept as two 16-bit halves where they could exceed TLC's int range
Hi16(b, p) == U16(b, p)
Lo16(b, p) == U16(b, p + 2)
U32(b, p) == Hi16(b, p) * 65536 + Lo16(b, p)            \* only used for sizes and lengths (< 2^31)
S8(x)  == IF x >= 128 THEN x - 256 ELSE x
S16(x) == IF x >= 32768 THEN x - 65536 ELSE x
S32(b, p) == IF Hi16(b, p) >= 32768 THEN (Hi16(b, p) - 65536) * 65536 + Lo16(b, p) ELSE U32(b, p)
Pad8(n) == ((n + 7) \div 8) * 8

MAGIC_HI == 61756      \* 0xF13C
MAGIC_LO == 22449      \* 0x57B1

RECURSIVE CStrEnd(_, _)
CStrEnd(b, p) == IF p >= Len(b) THEN -1 ELSE IF b[p + 1] = 0 THEN p ELSE CStrEnd(b, p + 1)
Str(b, p, e) == [i \in 1..(e - p) |-> b[p + i]]

Width(fl) == IF (fl % 2) = 1 THEN 1 ELSE IF ((fl \div 2) % 2) = 1 THEN 2 ELSE 4
IsStruct(fl) == ((fl \div 16) % 2) = 1
Elem(b, p, w) == IF w = 1 THEN S8(U8(b, p)) ELSE IF w = 2 THEN S16(U16(b, p)) ELSE S32(b, p)

\* number of elements of a table: hilen*lolen (or lolen when hilen = 0), twice that for structs
Count(fl, hi, lo) == (IF hi = 0 THEN lo ELSE hi * lo) * (IF IsStruct(fl) THEN 2 ELSE 1)

\* one table starting at offset p; result [ok, id, flags, hi, lo, data, next]
Table(b, p, lim) ==
  IF p + 12 > lim THEN [ok |-> FALSE]
  ELSE LET id == U16(b, p) fl == U16(b, p + 2) hi == U32(b, p + 4) lo == U32(b, p + 8)
           w == Width(fl) n == Count(fl, hi, lo)
           endd == p + 12 + n * w IN
       IF endd > lim THEN [ok |-> FALSE]
       ELSE [ok |-> TRUE, id |-> id, flags |-> fl, hi |-> hi, lo |-> lo,
             data |-> [k \in 1..n |-> Elem(b, p + 12 + (k - 1) * w, w)], next |-> Pad8(endd),
             \* td_pad64: the bytes up to the next 8-byte boundary are NUL bytes (the loader skips them unread)
             padok |-> \A x \in endd..(Pad8(endd) - 1) : x < lim => b[x + 1] = 0]

RECURSIVE Tables(_, _, _, _)
Tables(b, p, lim, acc) ==
  IF p >= lim THEN [ok |-> p = lim, tables |-> acc]
  ELSE LET t == Table(b, p, lim) IN
       IF ~t.ok THEN [ok |-> FALSE, tables |-> acc] ELSE Tables(b, t.next, lim, Append(acc, t))

\* one set starting at offset p of the first n bytes; [ok, name, hsize, ssize, flags, endp, tables]
SetAt(b, p, n) ==
  IF p + 14 > n THEN [ok |-> FALSE]
  ELSE IF Hi16(b, p) # MAGIC_HI \/ Lo16(b, p) # MAGIC_LO THEN [ok |-> FALSE]
  ELSE LET hs == U32(b, p + 4) ss == U32(b, p + 8) fl == U16(b, p + 12)
           ve == CStrEnd(b, p + 14) IN
       IF ve < 0 \/ ve >= n THEN [ok |-> FALSE]
       ELSE LET ne == CStrEnd(b, ve + 1) IN
            IF ne < 0 \/ ne >= n \/ p + ss > n \/ hs % 8 # 0 \/ ss % 8 # 0 \/ hs # Pad8(ne + 1 - p) THEN [ok |-> FALSE]
            ELSE LET ts == Tables(b, p + hs, p + ss, <<>>) IN
                 [ok |-> ts.ok, name |-> Str(b, ve + 1, ne), hsize |-> hs, ssize |-> ss, flags |-> fl,
                  endp |-> p + ss, tables |-> ts.tables,
                  \* th_pad64 after the name, td_pad64 after every table
                  padok |-> (\A x \in (ne + 1)..(p + hs - 1) : b[x + 1] = 0) /\ (\A k \in 1..Len(ts.tables) : ts.tables[k].padok)]

RECURSIVE Sets(_, _, _, _)
Sets(b, p, n, acc) ==
  IF p >= n THEN acc
  ELSE LET s == SetAt(b, p, n) IN IF ~s.ok THEN acc ELSE Sets(b, s.endp, n, Append(acc, s))

\* what loading the first n bytes for the set called `name` must do: succeed iff a complete,
\* well-formed set of that name is reachable through complete well-formed sets before it
LoadOK(b, n, name) == \E k \in 1..Len(Sets(b, 0, n, <<>>)) : Sets(b, 0, n, <<>>)[k].name = name

-----------------------------------------------------------------------------
VARIABLES c, j      \* case, observation within the case (0: the layout check)
Init == c = 1 /\ j = 0
Next == IF j < Len(Cases[c].obs) THEN j' = j + 1 /\ c' = c
        ELSE c < Len(Cases) /\ c' = c + 1 /\ j' = 0
Spec == Init /\ [][Next]_<<c, j>>

B == Cases[c].bytes
TheSets == Sets(B, 0, Len(B), <<>>)
Mine == CHOOSE s \in {TheSets[k] : k \in 1..Len(TheSets)} : s.name = Cases[c].name
ById(s, id) == LET ks == {k \in 1..Len(s.tables) : s.tables[k].id = id} IN
               IF ks = {} THEN <<>> ELSE s.tables[CHOOSE k \in ks : TRUE].data
Flat(rows) == IF rows = <<>> THEN <<>> ELSE [k \in 1..(Len(rows) * Len(rows[1])) |-> rows[((k - 1) \div Len(rows[1])) + 1][((k - 1) % Len(rows[1])) + 1]]
FlatPairs(ps) == [k \in 1..(2 * Len(ps)) |-> ps[((k - 1) \div 2) + 1][((k - 1) % 2) + 1]]

\* the file is exactly a sequence of well-formed sets, and the scanner's set holds the same
\* values as the in-code tables of the same rule set and configuration
LayoutOK ==
  (j = 0 /\ Cases[c].layout) =>
    /\ TheSets # <<>> /\ TheSets[Len(TheSets)].endp = Len(B)
    /\ \A k \in 1..Len(TheSets) : TheSets[k].flags = 0 /\ TheSets[k].padok
    /\ \E k \in 1..Len(TheSets) : TheSets[k].name = Cases[c].name
ContentOK ==
  (j = 0 /\ Cases[c].compare) =>
    LET T == Cases[c].T s == Mine IN
    /\ T.mode = "cmp" => /\ ById(s, 1) = T.accept /\ ById(s, 2) = T.base /\ ById(s, 3) = T.chk /\ ById(s, 4) = T.def
                         /\ ById(s, 8) = T.nxt
    /\ T.mode = "full" => ById(s, 1) = T.accept /\ ById(s, 8) = Flat(T.nxt2) /\ ById(s, 7) = T.nultrans
    /\ T.mode = "fullspd" => ById(s, 11) = FlatPairs(T.trans) /\ ById(s, 10) = T.ssl
    /\ T.useecs => ById(s, 5) = T.ec
    /\ T.usemecs => ById(s, 6) = T.meta
    /\ T.reject => ById(s, 12) = T.acclist
    /\ T.eol # <<>> => ById(s, 9) = T.eol

\* the real loader never crashes and succeeds exactly when the container allows it
O == Cases[c].obs[j]
LoaderOK ==
  j > 0 => /\ ~O.crash
           /\ (O.rc = 0) <=> LoadOK(B, O.k, Cases[c].name)
=============================================================================

----------------------------- MODULE FlexGeom -----------------------------
(* Buffer geometry of yy_get_next_buffer(): how large the buffer is after the "not enough room" loop and how   *)
(* many bytes are requested from the input routine.  Used by FlexBuffer.tla (the concrete buffer model), which     *)
(* documents the policy of the present code.  Trace validation (Trace_Scanner!Geometry) enforces only what the  *)
(* properties demand - the request fits the buffer - not this policy.                                          *)
EXTENDS Naturals
Min(a, b) == IF a < b THEN a ELSE b

\* yy_buf_size after the "while ( num_to_read <= 0 )" loop; keep = number_to_move, the text carried over
RECURSIVE Grow(_, _)
Grow(cap, keep) == IF cap - keep - 1 > 0 \/ cap > 1073741823 THEN cap ELSE Grow(2 * cap, keep)
NeedsGrowth(cap, keep) == cap < keep + 2
\* the size of the read request that follows
Req(cap, keep, readmax) == Min(cap - keep - 1, readmax)
=============================================================================

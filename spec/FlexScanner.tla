--------------------------- MODULE FlexScanner ---------------------------
(***************************************************************************)
(* The run-time of a generated scanner as the manual describes it: an      *)
(* abstract machine over byte streams.  One action per linearization point *)
(* of the skeleton (yylex's matching loop, YY_INPUT, yywrap, the functions *)
(* an action or the caller may use).  Nothing here mentions tables, buffer *)
(* geometry, API flavour or back end: those are representation, and the    *)
(* same machine must explain every configuration (properties C02, C03).    *)
(*                                                                         *)
(* The actions take the observable values as parameters, so that           *)
(*  - MC_Scanner explores them over small domains and checks the           *)
(*    properties (FlexScannerProps), and                                   *)
(*  - Trace_Scanner binds them to events recorded from a running scanner.  *)
(***************************************************************************)
EXTENDS FlexRules, SequencesExt, TLC

CONSTANT RSets      \* sequence of compiled rule sets (FlexRules!Compile)

VARIABLES
  rs,      \* index of the rule set this scanner was generated from
  inited,  \* yylex() has been called (the first call creates the first buffer if there is none)
  opt,     \* [interactive, array, lno, bolneeded, rejectmode, bufsize, strictread, reentrant, userwrap]
  \* ---- input sources and buffers
  files,   \* files[f]: bytes of input source f not yet delivered by a read
  yyin,    \* the source `yyin` designates
  cur,     \* id of the current buffer (0: none)
  bstack,  \* the buffer stack (bottom first); its top is the current buffer
  saved,   \* records of the existing non-current buffers (function id -> record)
  fid,     \* source the current buffer reads (0: an in-memory buffer)
  fresh,   \* the current buffer is "new": its next read goes to whatever yyin is then
  buf,     \* bytes delivered to the current buffer but not yet consumed
  eof,     \* the current buffer's source has reported end of input
  bol,     \* "at beginning of line" flag of the current buffer
  \* ---- scanner state proper
  sc,      \* current start condition (0-based, as yystart() reports it)
  stk,     \* start-condition stack (bottom first)
  lineno,  \* yylineno (of the current buffer when reentrant)
  text,    \* yytext of the current token
  pfx,     \* text kept by yymore() for the next token
  more,    \* yymore() called in the current action
  cands,   \* REJECT alternatives not yet visited: Seq(<<rule, length>>)
  buf0, bol0, line0,  \* buf / bol / lineno when the current token's scan began
  eaten,   \* bytes consumed by yyinput() since the current action began
  phase,   \* "out" | "scan" | "act" | "rej" | "wrap" | "eofact" | "done" | "fatal"
  wfrom,   \* phase in which yywrap() was entered
  switched,\* a buffer switch happened inside yywrap()
  hist     \* history (hidden from the model checker's VIEW)

bvars == <<files, yyin, cur, bstack, saved, fid, fresh, buf, eof, bol>>
cvars == <<sc, stk>>
kvars == <<text, pfx, more, cands, buf0, bol0, line0, eaten>>
svars == <<rs, inited, opt, bvars, cvars, lineno, kvars, phase, wfrom, switched, hist>>

R == RSets[rs]
NRules == Len(R.rules)          \* including the default rule (= NRules)
CountNL(w) == Cardinality({i \in 1..Len(w) : w[i] = NL})

\* ------------------------------------------------------------------ matching
\* The match at the head of `buf` is decided when the scan of the buffered
\* bytes dies (batch scanners must see the byte they jam on), or - in an
\* interactive scanner - reaches a state that no byte can extend, or the
\* source is exhausted.
RECURSIVE Decided(_, _, _)
Decided(S, w, j) ==
  IF S = {} THEN TRUE
  ELSE IF opt.interactive /\ NoOut(S) THEN TRUE
  ELSE IF j = Len(w) THEN FALSE
  ELSE Decided(StepI(R, S, w[j + 1]), w, j + 1)
\* A "new" buffer reads from what yyin designates at that moment.
ReadFile == IF fresh THEN yyin ELSE fid
\* (through stdio the end-of-file indicator of an exhausted source is sticky: the scanner's next request is
\* answered with "nothing" by the stream itself, without the source being asked - an empty read nobody sees)
SilentEof == opt.stdio /\ ReadFile # 0 /\ ReadFile <= Len(files) /\ files[ReadFile] = <<>>
MatchDecided == eof \/ Decided(Start(R, sc + 1, bol), buf, 0) \/ SilentEof

CandSeq(w, b) == SortSeq(SetToSeq(Scan(R, Start(R, sc + 1, b), w, 0, {})[1]), Better)

\* ------------------------------------------------------------------ buffers
LiveRec == [buf |-> buf, eof |-> eof, bol |-> bol, fid |-> fid, fresh |-> fresh, lineno |-> lineno]
NewRec(f) == [buf |-> <<>>, eof |-> FALSE, bol |-> TRUE, fid |-> f, fresh |-> TRUE, lineno |-> 1]
MemRec(bytes) == [buf |-> bytes, eof |-> TRUE, bol |-> TRUE, fid |-> 0, fresh |-> FALSE, lineno |-> 1]
Load(rec) == /\ buf' = rec.buf /\ eof' = rec.eof /\ bol' = rec.bol /\ fid' = rec.fid /\ fresh' = rec.fresh
             /\ lineno' = IF opt.reentrant THEN rec.lineno ELSE lineno
Exists(b) == b # 0 /\ (b = cur \/ b \in DOMAIN saved)
Without(f, b) == [x \in (DOMAIN f) \ {b} |-> f[x]]
\* the saved records once the current buffer steps aside
Parked == IF cur = 0 THEN saved ELSE (cur :> LiveRec) @@ saved

\* ------------------------------------------------------------------ actions
SInit ==
  /\ rs = 1 /\ inited = FALSE /\ opt = [interactive |-> TRUE, array |-> FALSE, lno |-> TRUE, bolneeded |-> TRUE,
                      rejectmode |-> FALSE, bufsize |-> 0, strictread |-> TRUE, reentrant |-> FALSE,
                      userwrap |-> FALSE, failalloc |-> 0, stdio |-> FALSE, yylmax |-> 8192]
  /\ files = <<>> /\ yyin = 1 /\ cur = 1 /\ bstack = <<1>> /\ saved = <<>> /\ fid = 1 /\ fresh = TRUE
  /\ buf = <<>> /\ eof = FALSE /\ bol = TRUE
  /\ sc = 0 /\ stk = <<>> /\ lineno = 1
  /\ text = <<>> /\ pfx = <<>> /\ more = FALSE /\ cands = <<>> /\ buf0 = <<>> /\ bol0 = TRUE /\ line0 = 1 /\ eaten = 0
  /\ phase = "done" /\ wfrom = "scan" /\ switched = FALSE /\ hist = <<>>

\* a fresh scanner; fs = the input sources (fs[1] is what yyin designates first)
Reset(k, fs, o) ==
  /\ rs' = k /\ opt' = o /\ inited' = FALSE
  \* a buffer exists from the start only if the caller made one (bufsize > 0)
  /\ files' = fs /\ yyin' = 1 /\ saved' = <<>> /\ fid' = 1 /\ fresh' = TRUE
  /\ cur' = (IF o.bufsize > 0 THEN 1 ELSE 0) /\ bstack' = (IF o.bufsize > 0 THEN <<1>> ELSE <<>>)
  /\ buf' = <<>> /\ eof' = FALSE /\ bol' = TRUE
  /\ sc' = 0 /\ stk' = <<>> /\ lineno' = 1
  /\ text' = <<>> /\ pfx' = <<>> /\ more' = FALSE /\ cands' = <<>> /\ buf0' = <<>> /\ bol0' = TRUE /\ line0' = 1 /\ eaten' = 0
  /\ phase' = "out" /\ wfrom' = "scan" /\ switched' = FALSE /\ hist' = <<>>

\* the caller calls yylex(); the very first call creates a buffer on yyin if
\* there is no current buffer yet
Call ==
  /\ phase \in {"out", "done"} /\ phase' = "scan" /\ inited' = TRUE
  /\ IF cur = 0 /\ ~inited
     THEN /\ cur' = 1 /\ bstack' = <<1>> /\ buf' = <<>> /\ eof' = FALSE /\ bol' = TRUE /\ fid' = yyin /\ fresh' = TRUE
          /\ lineno' = IF opt.reentrant THEN 1 ELSE lineno
          /\ UNCHANGED <<files, yyin, saved>>
     ELSE /\ cur # 0 /\ UNCHANGED <<bvars, lineno>>
  /\ UNCHANGED <<rs, opt, cvars, kvars, wfrom, switched, hist>>

\* the current buffer's source delivers its next `got` bytes (0 = end of
\* input).  While scanning this may happen only if the match is not yet
\* decided (no over-read); inside an action (yyinput) only if nothing is
\* buffered.  A "new" buffer reads from what yyin designates at that moment.
Read(got) ==
  \* (through stdio an exhausted source may be asked again: the scanner does not see every empty read)
  /\ cur # 0 /\ (~eof \/ (got = 0 /\ opt.stdio)) /\ ReadFile # 0 /\ ReadFile <= Len(files)
  /\ got <= Len(files[ReadFile]) /\ (got = 0 => files[ReadFile] = <<>>)
  /\ \/ phase = "scan" /\ (opt.strictread => ~MatchDecided)
     \/ phase = "act" /\ (opt.strictread => buf = <<>>)
  /\ files' = [files EXCEPT ![ReadFile] = SubSeq(@, got + 1, Len(@))]
  /\ buf' = buf \o SubSeq(files[ReadFile], 1, got) /\ eof' = (got = 0)
  /\ fid' = ReadFile /\ fresh' = FALSE
  /\ UNCHANGED <<rs, inited, opt, yyin, cur, bstack, saved, bol, cvars, lineno, kvars, phase, wfrom, switched, hist>>

\* candidate c = <<rule, match length>> taken against the token-start text w
Take(c, w, b0, l0, h) ==
  /\ h \in HeadLens(R, c[1], w, c[2])
  /\ text' = pfx \o SubSeq(w, 1, h)
  /\ buf' = SubSeq(w, h + 1, Len(w))
  /\ lineno' = IF opt.lno THEN l0 + CountNL(SubSeq(w, 1, h)) ELSE lineno
  /\ bol' = IF Len(text') > 0 THEN Last(text') = NL ELSE b0

\* an action ends (falls off its end, or returns): yymore latch, REJECT
\* alternatives forgotten
EndEffects == /\ pfx' = (IF more THEN text ELSE <<>>) /\ more' = FALSE /\ cands' = <<>>

\* the best match is selected and its action entered
Match(rule, h) ==
  /\ phase = "scan" /\ cur # 0 /\ MatchDecided /\ buf # <<>>
  /\ LET cs == CandSeq(buf, bol) IN
     /\ cs # <<>> /\ cs[1][1] = rule
     /\ Take(cs[1], buf, bol, lineno, h)
     /\ buf0' = buf /\ bol0' = bol /\ line0' = lineno
     /\ IF rule = NRules   \* default rule: its action (ECHO) is not scripted and ends at once
        THEN /\ phase' = "scan" /\ pfx' = <<>> /\ more' = FALSE /\ cands' = <<>>
        ELSE /\ phase' = "act" /\ cands' = Tail(cs) /\ UNCHANGED <<pfx, more>>
  /\ hist' = Append(hist, <<"tok", rule, text'>>) /\ eaten' = 0
  /\ UNCHANGED <<rs, inited, opt, files, yyin, cur, bstack, saved, fid, fresh, eof, cvars, wfrom, switched>>

\* REJECT is defined on the token as matched: it may follow yyless() but not a yyunput()/yyinput() of
\* the same action (the manual defines it as "the next best rule for the same input")
Reject ==
  /\ phase = "act" /\ cands # <<>>
  /\ eaten = 0 /\ SubSeq(text, Len(pfx) + 1, Len(text)) \o buf = buf0
  /\ phase' = "rej"
  /\ UNCHANGED <<rs, inited, opt, bvars, cvars, lineno, kvars, wfrom, switched, hist>>

\* the next-best alternative at the same position
MatchAgain(rule, h) ==
  /\ phase = "rej" /\ cands # <<>> /\ cands[1][1] = rule
  /\ Take(cands[1], buf0, bol0, line0, h)
  /\ IF rule = NRules
     THEN /\ phase' = "scan" /\ pfx' = <<>> /\ more' = FALSE /\ cands' = <<>>
     ELSE /\ phase' = "act" /\ cands' = Tail(cands) /\ UNCHANGED <<pfx, more>>
  /\ hist' = Append(hist, <<"tok", rule, text'>>)
  /\ UNCHANGED <<rs, inited, opt, files, yyin, cur, bstack, saved, fid, fresh, eof, cvars, buf0, bol0, line0, eaten, wfrom, switched>>

ActEnd ==
  /\ phase = "act" /\ phase' = "scan" /\ EndEffects
  /\ UNCHANGED <<rs, inited, opt, bvars, cvars, lineno, text, buf0, bol0, line0, eaten, wfrom, switched, hist>>

\* the action returns to the caller of yylex
Return ==
  /\ phase = "act" /\ phase' = "out" /\ EndEffects
  /\ UNCHANGED <<rs, inited, opt, bvars, cvars, lineno, text, buf0, bol0, line0, eaten, wfrom, switched, hist>>

\* yyless(n): keep the first n bytes of yytext, rescan the rest
Less(n) ==
  /\ phase = "act" /\ n >= 0 /\ n <= Len(text)
  /\ text' = SubSeq(text, 1, n)
  /\ buf' = SubSeq(text, n + 1, Len(text)) \o buf
  /\ lineno' = IF opt.lno THEN lineno - CountNL(SubSeq(text, n + 1, Len(text))) ELSE lineno
  /\ hist' = Append(hist, <<"less", n>>)
  /\ UNCHANGED <<rs, inited, opt, files, yyin, cur, bstack, saved, fid, fresh, eof, bol, cvars, pfx, more, cands, buf0, bol0, line0, eaten, phase, wfrom, switched>>

More ==
  /\ phase = "act" /\ more' = TRUE
  /\ UNCHANGED <<rs, inited, opt, bvars, cvars, lineno, text, pfx, cands, buf0, bol0, line0, eaten, phase, wfrom, switched, hist>>

\* yyunput(c): c will be the next byte read
Unput(c) ==
  /\ phase = "act"
  /\ buf' = <<c>> \o buf
  /\ lineno' = IF opt.lno /\ c = NL THEN lineno - 1 ELSE lineno
  /\ hist' = Append(hist, <<"unput", c>>)
  /\ UNCHANGED <<rs, inited, opt, files, yyin, cur, bstack, saved, fid, fresh, eof, bol, cvars, kvars, phase, wfrom, switched>>

\* yyinput() returns the next byte ...
Input(c) ==
  /\ phase = "act" /\ buf # <<>> /\ c = buf[1]
  /\ buf' = Tail(buf)
  /\ lineno' = IF opt.lno /\ c = NL THEN lineno + 1 ELSE lineno
  /\ bol' = IF opt.bolneeded THEN c = NL ELSE bol
  /\ hist' = Append(hist, <<"input", c>>) /\ eaten' = eaten + 1
  /\ UNCHANGED <<rs, inited, opt, files, yyin, cur, bstack, saved, fid, fresh, eof, cvars, text, pfx, more, cands, buf0, bol0, line0, phase, wfrom, switched>>

\* A file-backed buffer that reaches end of input is restarted on yyin at
\* once (before yywrap is consulted): it is "new" again, what comes next
\* begins a line, and the source will be asked again.
EofRestart ==
  IF fid # 0 \/ fresh THEN /\ bol' = TRUE /\ eof' = FALSE /\ fresh' = TRUE /\ fid' = yyin
  ELSE UNCHANGED <<bol, eof, fresh, fid>>
\* (through stdio the end-of-file indicator is sticky: an exhausted source need not be seen to be asked again)
AtEnd == /\ cur # 0 /\ buf = <<>>
         \* (a buffer that has seen the end of its source stays at its end, even if the source is opened again
         \*  meanwhile: Reopen)
         /\ (eof \/ SilentEof)

\* ... or its end-of-input value, only when no input remains at all (with a
\* user yywrap only after yywrap said so: WrapRet1 returns to the action)
InputEnd ==
  /\ phase = "act"
  /\ IF opt.userwrap THEN wfrom = "act" /\ UNCHANGED <<bol, eof, fresh, fid>>
     ELSE AtEnd /\ EofRestart
  /\ wfrom' = "scan"
  /\ UNCHANGED <<rs, inited, opt, files, yyin, cur, bstack, saved, buf, cvars, lineno, kvars, phase, switched, hist>>

Begin(s) ==
  /\ sc' = s
  /\ UNCHANGED <<rs, inited, opt, bvars, stk, lineno, kvars, phase, wfrom, switched, hist>>
Push(s) ==
  /\ stk' = Append(stk, sc) /\ sc' = s
  /\ UNCHANGED <<rs, inited, opt, bvars, lineno, kvars, phase, wfrom, switched, hist>>
Pop ==
  /\ stk # <<>> /\ sc' = Last(stk) /\ stk' = Front(stk)
  /\ UNCHANGED <<rs, inited, opt, bvars, lineno, kvars, phase, wfrom, switched, hist>>
\* popping the empty stack is a reported fatal error
PopUnderflow ==
  /\ stk = <<>> /\ phase' = "fatal"
  /\ UNCHANGED <<rs, inited, opt, bvars, cvars, lineno, kvars, wfrom, switched, hist>>
TopIs(v) == v = (IF stk = <<>> THEN sc ELSE Last(stk))
SetBol(v) ==
  /\ cur # 0 /\ bol' = v
  /\ UNCHANGED <<rs, inited, opt, files, yyin, cur, bstack, saved, fid, fresh, buf, eof, cvars, lineno, kvars, phase, wfrom, switched, hist>>

\* yyset_lineno(n) / an assignment to yylineno: the user sets the line number; counting goes on from there.
\* (A reentrant scanner keeps the number in the current buffer: there must be one.)  The scanner never
\* looks at the value: with or without %option yylineno it is the user's from here on.
SetLineno(n) ==
  /\ (opt.reentrant => cur # 0) /\ lineno' = n
  \* (the count is kept by differences: what a later REJECT of the current token gives back is taken from the new value)
  /\ line0' = line0 + (n - lineno)
  /\ UNCHANGED <<rs, inited, opt, bvars, cvars, text, pfx, more, cands, buf0, bol0, eaten, phase, wfrom, switched, hist>>

\* ------------------------------------------------------------------ end of input
\* Nothing buffered and the source exhausted.  Without a user yywrap the
\* <<EOF>> action of the current condition (k = 0: the default one, which
\* makes yylex return 0) runs at once ...
AtEof(k) ==
  /\ phase = "scan" /\ AtEnd /\ ~opt.userwrap
  /\ k = EofRule(R, sc + 1)
  /\ EofRestart
  /\ phase' = "done" /\ pfx' = <<>> /\ more' = FALSE /\ cands' = <<>>
  /\ UNCHANGED <<rs, inited, opt, files, yyin, cur, bstack, saved, buf, cvars, lineno, text, buf0, bol0, line0, eaten, wfrom, switched, hist>>

\* ... with one, yywrap() is consulted first (from the matching loop or from
\* yyinput()), only when nothing at all is pending
WrapEnter ==
  /\ opt.userwrap /\ phase \in {"scan", "act"} /\ AtEnd
  /\ EofRestart
  /\ wfrom' = phase /\ phase' = "wrap" /\ switched' = FALSE
  /\ UNCHANGED <<rs, inited, opt, files, yyin, cur, bstack, saved, buf, cvars, lineno, kvars, hist>>
\* yywrap() returned 1: end of input for good.  From the matching loop the
\* <<EOF>> action k of the current condition runs next (EofAct); yyinput()
\* returns its end-of-input value to the action (InputEnd).
WrapRet1 ==
  /\ phase = "wrap"
  /\ phase' = IF wfrom = "scan" THEN "eofact" ELSE "act"
  /\ UNCHANGED <<rs, inited, opt, bvars, cvars, lineno, kvars, wfrom, switched, hist>>
EofAct(k) ==
  /\ phase = "eofact" /\ k = EofRule(R, sc + 1)
  /\ phase' = "done" /\ pfx' = <<>> /\ more' = FALSE /\ cands' = <<>>
  /\ UNCHANGED <<rs, inited, opt, bvars, cvars, lineno, text, buf0, bol0, line0, eaten, wfrom, switched, hist>>
\* yywrap() returned 0: more input.  If it did not switch buffers itself, the
\* current buffer is restarted on whatever yyin designates now.
WrapRet0 ==
  /\ phase = "wrap" /\ phase' = wfrom /\ wfrom' = "scan"
  /\ IF switched THEN UNCHANGED <<buf, eof, bol, fid, fresh>>
     ELSE /\ buf' = <<>> /\ eof' = FALSE /\ bol' = TRUE /\ fid' = yyin /\ fresh' = TRUE
  /\ UNCHANGED <<rs, inited, opt, files, yyin, cur, bstack, saved, cvars, lineno, kvars, switched, hist>>

\* ------------------------------------------------------------------ buffer API
\* (callable between yylex() calls, from actions and from yywrap)
BufPhase == phase \in {"out", "done", "act", "wrap"}

\* the environment: source f is opened again (same FILE / stream object, its content available once more)
Reopen(f, bytes) ==
  /\ f >= 1 /\ f <= Len(files)
  /\ files' = [files EXCEPT ![f] = bytes]
  /\ UNCHANGED <<rs, inited, opt, yyin, cur, bstack, saved, fid, fresh, buf, eof, bol, cvars, lineno, kvars, phase, wfrom, switched, hist>>

SetYyin(f) ==
  /\ yyin' = f
  /\ UNCHANGED <<rs, inited, opt, files, cur, bstack, saved, fid, fresh, buf, eof, bol, cvars, lineno, kvars, phase, wfrom, switched, hist>>

\* yy_create_buffer(file f): a new, not yet current buffer
NewBuf(b, f) ==
  /\ BufPhase /\ ~Exists(b) /\ b # 0
  /\ saved' = (b :> NewRec(f)) @@ saved
  /\ UNCHANGED <<rs, inited, opt, files, yyin, cur, bstack, fid, fresh, buf, eof, bol, cvars, lineno, kvars, phase, wfrom, switched, hist>>

\* make b current in place of the current buffer, which keeps its state
SwitchTo(b) ==
  /\ BufPhase /\ Exists(b)
  /\ IF b = cur THEN UNCHANGED <<cur, bstack, saved, fid, fresh, buf, eof, bol, lineno, yyin>>
     ELSE /\ Load(saved[b]) /\ cur' = b
          /\ saved' = Without(Parked, b)
          /\ bstack' = IF bstack = <<>> THEN <<b>> ELSE Front(bstack) \o <<b>>
          /\ yyin' = saved[b].fid
  /\ switched' = (switched \/ b # cur)
  /\ UNCHANGED <<rs, inited, opt, files, cvars, kvars, phase, wfrom, hist>>

\* yypush_buffer_state(b): b becomes current on top of the current buffer
PushBuf(b) ==
  /\ BufPhase /\ Exists(b) /\ b # cur
  /\ Load(saved[b]) /\ cur' = b
  /\ saved' = Without(Parked, b)
  /\ bstack' = Append(bstack, b)
  /\ yyin' = saved[b].fid
  /\ switched' = TRUE
  /\ UNCHANGED <<rs, inited, opt, files, cvars, kvars, phase, wfrom, hist>>

\* yypop_buffer_state(): the current buffer is deleted, the one pushed before
\* it (if any) becomes current again, exactly as it was
PopBuf ==
  /\ BufPhase /\ cur # 0
  /\ bstack' = Front(bstack)
  /\ IF Len(bstack) > 1
     THEN LET b == bstack[Len(bstack) - 1] IN
          /\ Load(saved[b]) /\ cur' = b /\ saved' = Without(saved, b)
          /\ yyin' = saved[b].fid
          /\ switched' = TRUE
     ELSE /\ cur' = 0 /\ buf' = <<>> /\ eof' = FALSE /\ fid' = 0 /\ fresh' = FALSE
          /\ UNCHANGED <<saved, bol, lineno, yyin, switched>>
  /\ UNCHANGED <<rs, inited, opt, files, cvars, kvars, phase, wfrom, hist>>

\* yy_scan_string / yy_scan_bytes / yy_scan_buffer: a buffer over exactly
\* these bytes, made current
ScanMem(b, bytes) ==
  /\ BufPhase /\ ~Exists(b) /\ b # 0
  /\ Load(MemRec(bytes)) /\ cur' = b
  /\ saved' = Parked
  /\ bstack' = IF bstack = <<>> THEN <<b>> ELSE Front(bstack) \o <<b>>
  /\ switched' = TRUE /\ yyin' = 0       \* an in-memory buffer has no file: yyin designates none
  /\ UNCHANGED <<rs, inited, opt, files, cvars, kvars, phase, wfrom, hist>>

\* yy_flush_buffer(b): only the already-buffered text is discarded
Flush(b) ==
  /\ BufPhase /\ Exists(b)
  /\ IF b = cur
     THEN /\ buf' = <<>> /\ bol' = TRUE /\ eof' = (fid = 0 /\ ~fresh) /\ fresh' = (fid # 0 \/ fresh)
          /\ UNCHANGED saved
     ELSE /\ LET r == saved[b] IN
             saved' = [saved EXCEPT ![b] = [r EXCEPT !.buf = <<>>, !.bol = TRUE,
                                                     !.eof = (r.fid = 0 /\ ~r.fresh), !.fresh = (r.fid # 0 \/ r.fresh)]]
          /\ UNCHANGED <<buf, bol, eof, fresh>>
  /\ UNCHANGED <<rs, inited, opt, files, yyin, cur, bstack, fid, cvars, lineno, kvars, phase, wfrom, switched, hist>>

\* yy_delete_buffer(b) of a buffer that is not current
Delete(b) ==
  /\ BufPhase /\ b # cur /\ b \in DOMAIN saved
  /\ saved' = Without(saved, b)
  /\ UNCHANGED <<rs, inited, opt, files, yyin, cur, bstack, fid, fresh, buf, eof, bol, cvars, lineno, kvars, phase, wfrom, switched, hist>>

\* yyrestart(f): the current buffer forgets what it had buffered and reads f
\* from now on; the start condition is not touched
Restart(f) ==
  /\ BufPhase /\ cur # 0
  /\ buf' = <<>> /\ eof' = FALSE /\ bol' = TRUE /\ fid' = f /\ fresh' = TRUE /\ yyin' = f
  /\ UNCHANGED <<rs, inited, opt, files, cur, bstack, saved, cvars, lineno, kvars, phase, wfrom, switched, hist>>

\* ------------------------------------------------------------------ documented fatal errors
InBufPfx == IF opt.array THEN 0 ELSE Len(pfx)
FatalRejectOverflow ==   \* REJECT scanner whose token does not fit its non-growing buffer
  /\ opt.rejectmode /\ opt.bufsize > 0
  /\ \/ phase = "scan" /\ InBufPfx + Len(buf) + 1 >= opt.bufsize
     \/ phase = "act" /\ buf = <<>> /\ Len(text) + eaten + 1 >= opt.bufsize   \* refill asked by yyinput()
  /\ phase' = "fatal"
  /\ UNCHANGED <<rs, inited, opt, bvars, cvars, lineno, kvars, wfrom, switched, hist>>
FatalPushback ==         \* yyunput() beyond the push-back capacity (the buffer is full of pending text)
  /\ phase = "act" /\ opt.bufsize > 0 /\ Len(buf) + 3 >= opt.bufsize
  /\ phase' = "fatal"
  /\ UNCHANGED <<rs, inited, opt, bvars, cvars, lineno, kvars, wfrom, switched, hist>>
FatalTooLarge ==         \* %array: the token (with what yymore() kept) does not fit yytext[YYLMAX]
  /\ opt.array /\ phase = "scan" /\ cur # 0 /\ buf # <<>>
  \* (the text is copied into the array - and its length checked - also when the end of the buffer is reached in
  \*  the middle of a match: the error may come before the match is decided, on the text scanned so far)
  /\ \/ MatchDecided /\ LET cs == CandSeq(buf, bol) IN cs # <<>> /\ Len(pfx) + cs[1][2] >= opt.yylmax
     \/ ~MatchDecided /\ Len(pfx) + Len(buf) >= opt.yylmax
  /\ phase' = "fatal"
  /\ UNCHANGED <<rs, inited, opt, bvars, cvars, lineno, kvars, wfrom, switched, hist>>
=============================================================================

--------------------------- MODULE FlexScanner ---------------------------
(***************************************************************************)
(* The run-time of a generated scanner as the manual describes it: an      *)
(* abstract machine over byte streams.  One action per linearization point *)
(* of the skeleton (yylex's matching loop, YY_INPUT, the functions an      *)
(* action may call).  Nothing here mentions tables, buffers' geometry,     *)
(* API flavour or back end: those are representation, and the same         *)
(* machine must explain every configuration (properties C02, C03).         *)
(*                                                                         *)
(* The actions take the observable values as parameters, so that           *)
(*  - MC_Scanner explores them over small domains and checks the           *)
(*    properties (stated separately in FlexScannerProps), and              *)
(*  - Trace_Scanner binds them to events recorded from a running scanner.  *)
(***************************************************************************)
EXTENDS FlexRules, SequencesExt

CONSTANT RSets      \* sequence of compiled rule sets (FlexRules!Compile)

VARIABLES
  rs,      \* index of the rule set this scanner was generated from
  opt,     \* [interactive, array, lno, bolneeded, rejectmode, bufsize, strictread]
  inp,     \* bytes of the input source not yet delivered by a read
  buf,     \* bytes delivered but not yet consumed (after the current token)
  eof,     \* the source has reported end of input
  sc,      \* current start condition (0-based, as yystart() reports it)
  stk,     \* start-condition stack (bottom first)
  bol,     \* "at beginning of line" flag
  lineno,  \* yylineno
  text,    \* yytext of the current token
  pfx,     \* text kept by yymore() for the next token
  more,    \* yymore() called in the current action
  cands,   \* REJECT alternatives not yet visited: Seq(<<rule, length>>)
  buf0, bol0, line0,  \* buf / bol / lineno when the current token's scan began
  phase,   \* "scan" | "act" | "rej" | "done" | "fatal"
  eaten,   \* bytes consumed by yyinput() since the current action began
  hist     \* history (hidden from the model checker's VIEW): what was consumed

svars == <<rs, opt, inp, buf, eof, sc, stk, bol, lineno, text, pfx, more, cands, buf0, bol0, line0, phase, eaten, hist>>

R == RSets[rs]
NRules == Len(R.rules)          \* including the default rule (= NRules)
CountNL(w) == Cardinality({i \in 1..Len(w) : w[i] = NL})

\* ------------------------------------------------------------------ matching
\* item state reached after scanning w from the start state
ScanOf(w) == Scan(R, Start(R, sc + 1, bol), w, 0, {})

\* The match at the head of `buf` is decided when the scan of the buffered
\* bytes dies (batch scanners must see the byte they jam on), or - in an
\* interactive scanner - reaches a state that no byte can extend, or the
\* source is exhausted.
RECURSIVE Decided(_, _, _)
Decided(S, w, j) ==
  IF S = {} THEN TRUE
  ELSE IF opt.interactive /\ NoOut(S) THEN TRUE
  ELSE IF j = Len(w) THEN FALSE
  ELSE Decided(StepI(R, S, w[j + 1]), w, j + 1)
MatchDecided == eof \/ Decided(Start(R, sc + 1, bol), buf, 0)

CandSeq(w, b) == SortSeq(SetToSeq(Scan(R, Start(R, sc + 1, b), w, 0, {})[1]), Better)

\* ------------------------------------------------------------------ actions
SInit ==
  /\ rs = 1 /\ opt = [interactive |-> TRUE, array |-> FALSE, lno |-> TRUE, bolneeded |-> TRUE,
                      rejectmode |-> FALSE, bufsize |-> 0, strictread |-> TRUE]
  /\ inp = <<>> /\ buf = <<>> /\ eof = FALSE /\ sc = 0 /\ stk = <<>> /\ bol = TRUE /\ lineno = 1
  /\ text = <<>> /\ pfx = <<>> /\ more = FALSE /\ cands = <<>> /\ buf0 = <<>> /\ bol0 = TRUE /\ line0 = 1
  /\ phase = "done" /\ eaten = 0 /\ hist = <<>>

\* a fresh scanner over `input`
Reset(k, input, o) ==
  /\ rs' = k /\ opt' = o /\ inp' = input /\ buf' = <<>> /\ eof' = FALSE /\ sc' = 0 /\ stk' = <<>>
  /\ bol' = TRUE /\ lineno' = 1 /\ text' = <<>> /\ pfx' = <<>> /\ more' = FALSE /\ cands' = <<>>
  /\ buf0' = <<>> /\ bol0' = TRUE /\ line0' = 1 /\ phase' = "scan" /\ eaten' = 0 /\ hist' = <<>>

\* the source delivers the next `got` bytes (0 = end of input).  While
\* scanning this may happen only if the match is not yet decided (no
\* over-read); inside an action (yyinput) only if nothing is buffered.
Read(got) ==
  /\ ~eof /\ got <= Len(inp) /\ (got = 0 => inp = <<>>)
  /\ \/ phase = "scan" /\ (opt.strictread => ~MatchDecided)
     \/ phase = "act" /\ (opt.strictread => buf = <<>>)
  /\ inp' = SubSeq(inp, got + 1, Len(inp)) /\ buf' = buf \o SubSeq(inp, 1, got) /\ eof' = (got = 0)
  /\ UNCHANGED <<rs, opt, sc, stk, bol, lineno, text, pfx, more, cands, buf0, bol0, line0, phase, eaten, hist>>

\* candidate c = <<rule, match length>> taken against the token-start text w
Take(c, w, b0, l0, h) ==
  /\ h \in HeadLens(R, c[1], w, c[2])
  /\ text' = pfx \o SubSeq(w, 1, h)
  /\ buf' = SubSeq(w, h + 1, Len(w))
  /\ lineno' = IF opt.lno THEN l0 + CountNL(SubSeq(w, 1, h)) ELSE lineno
  /\ bol' = IF Len(text') > 0 THEN Last(text') = NL ELSE b0

\* an action ends (falls off its end, or returns): yymore latch, REJECT
\* alternatives forgotten
EndEffects == /\ pfx' = (IF more THEN text ELSE <<>>) /\ more' = FALSE /\ cands' = <<>>

\* the best match is selected and its action entered
Match(rule, h) ==
  /\ phase = "scan" /\ MatchDecided /\ buf # <<>>
  /\ LET cs == CandSeq(buf, bol) IN
     /\ cs # <<>> /\ cs[1][1] = rule
     /\ Take(cs[1], buf, bol, lineno, h)
     /\ buf0' = buf /\ bol0' = bol /\ line0' = lineno
     /\ IF rule = NRules   \* default rule: its action (ECHO) is not scripted and ends at once
        THEN /\ phase' = "scan" /\ pfx' = <<>> /\ more' = FALSE /\ cands' = <<>>
        ELSE /\ phase' = "act" /\ cands' = Tail(cs) /\ UNCHANGED <<pfx, more>>
  /\ hist' = Append(hist, <<"tok", rule, text'>>) /\ eaten' = 0
  /\ UNCHANGED <<rs, opt, inp, eof, sc, stk>>

Reject ==
  /\ phase = "act" /\ cands # <<>>
  /\ phase' = "rej"
  /\ UNCHANGED <<rs, opt, inp, buf, eof, sc, stk, bol, lineno, text, pfx, more, cands, buf0, bol0, line0, eaten, hist>>

\* the next-best alternative at the same position
MatchAgain(rule, h) ==
  /\ phase = "rej" /\ cands # <<>> /\ cands[1][1] = rule
  /\ Take(cands[1], buf0, bol0, line0, h)
  /\ IF rule = NRules
     THEN /\ phase' = "scan" /\ pfx' = <<>> /\ more' = FALSE /\ cands' = <<>>
     ELSE /\ phase' = "act" /\ cands' = Tail(cands) /\ UNCHANGED <<pfx, more>>
  /\ hist' = Append(hist, <<"tok", rule, text'>>)
  /\ UNCHANGED <<rs, opt, inp, eof, sc, stk, buf0, bol0, line0, eaten>>

ActEnd ==
  /\ phase = "act" /\ phase' = "scan" /\ EndEffects
  /\ UNCHANGED <<rs, opt, inp, buf, eof, sc, stk, bol, lineno, text, buf0, bol0, line0, eaten, hist>>

\* yyless(n): keep the first n bytes of yytext, rescan the rest
Less(n) ==
  /\ phase = "act" /\ n >= 0 /\ n <= Len(text)
  /\ text' = SubSeq(text, 1, n)
  /\ buf' = SubSeq(text, n + 1, Len(text)) \o buf
  /\ lineno' = IF opt.lno THEN lineno - CountNL(SubSeq(text, n + 1, Len(text))) ELSE lineno
  /\ hist' = Append(hist, <<"less", n>>)
  /\ UNCHANGED <<rs, opt, inp, eof, sc, stk, bol, pfx, more, cands, buf0, bol0, line0, phase, eaten>>

More ==
  /\ phase = "act" /\ more' = TRUE
  /\ UNCHANGED <<rs, opt, inp, buf, eof, sc, stk, bol, lineno, text, pfx, cands, buf0, bol0, line0, phase, eaten, hist>>

\* yyunput(c): c will be the next byte read
Unput(c) ==
  /\ phase = "act"
  /\ buf' = <<c>> \o buf
  /\ lineno' = IF opt.lno /\ c = NL THEN lineno - 1 ELSE lineno
  /\ hist' = Append(hist, <<"unput", c>>)
  /\ UNCHANGED <<rs, opt, inp, eof, sc, stk, bol, text, pfx, more, cands, buf0, bol0, line0, phase, eaten>>

\* yyinput() returns the next byte ...
Input(c) ==
  /\ phase = "act" /\ buf # <<>> /\ c = buf[1]
  /\ buf' = Tail(buf)
  /\ lineno' = IF opt.lno /\ c = NL THEN lineno + 1 ELSE lineno
  /\ bol' = IF opt.bolneeded THEN c = NL ELSE bol
  /\ hist' = Append(hist, <<"input", c>>) /\ eaten' = eaten + 1
  /\ UNCHANGED <<rs, opt, inp, eof, sc, stk, text, pfx, more, cands, buf0, bol0, line0, phase>>
\* ... or its end-of-input value, only when no input remains at all
\* (the exhausted source is restarted: it will be asked again, and what comes
\* next begins a line)
InputEnd ==
  /\ phase = "act" /\ buf = <<>> /\ inp = <<>> /\ eof
  /\ eof' = FALSE /\ bol' = TRUE
  /\ UNCHANGED <<rs, opt, inp, buf, sc, stk, lineno, text, pfx, more, cands, buf0, bol0, line0, phase, eaten, hist>>

Begin(s) ==
  /\ phase \in {"act", "scan", "done"} /\ sc' = s
  /\ UNCHANGED <<rs, opt, inp, buf, eof, stk, bol, lineno, text, pfx, more, cands, buf0, bol0, line0, phase, eaten, hist>>
Push(s) ==
  /\ phase \in {"act", "scan", "done"} /\ stk' = Append(stk, sc) /\ sc' = s
  /\ UNCHANGED <<rs, opt, inp, buf, eof, bol, lineno, text, pfx, more, cands, buf0, bol0, line0, phase, eaten, hist>>
Pop ==
  /\ phase \in {"act", "scan", "done"} /\ stk # <<>> /\ sc' = Last(stk) /\ stk' = Front(stk)
  /\ UNCHANGED <<rs, opt, inp, buf, eof, bol, lineno, text, pfx, more, cands, buf0, bol0, line0, phase, eaten, hist>>
\* popping the empty stack is a reported fatal error
PopUnderflow ==
  /\ stk = <<>> /\ phase' = "fatal"
  /\ UNCHANGED <<rs, opt, inp, buf, eof, sc, stk, bol, lineno, text, pfx, more, cands, buf0, bol0, line0, eaten, hist>>
TopIs(v) == v = (IF stk = <<>> THEN sc ELSE Last(stk))
SetBol(v) ==
  /\ bol' = v
  /\ UNCHANGED <<rs, opt, inp, buf, eof, sc, stk, lineno, text, pfx, more, cands, buf0, bol0, line0, phase, eaten, hist>>

\* the action returns to the caller of yylex
Return ==
  /\ phase = "act" /\ phase' = "scan" /\ EndEffects
  /\ UNCHANGED <<rs, opt, inp, buf, eof, sc, stk, bol, lineno, text, buf0, bol0, line0, eaten, hist>>

\* end of input: nothing buffered, source exhausted; the <<EOF>> action of
\* the current condition (k = 0: the default one) runs and yylex returns 0
AtEof(k) ==
  /\ phase = "scan" /\ buf = <<>> /\ inp = <<>> /\ eof
  /\ k = EofRule(R, sc + 1)
  /\ phase' = "done" /\ pfx' = <<>> /\ more' = FALSE /\ cands' = <<>>
  /\ bol' = TRUE      \* the exhausted source is restarted: next input begins a line
  /\ UNCHANGED <<rs, opt, inp, buf, eof, sc, stk, lineno, text, buf0, bol0, line0, eaten, hist>>

\* fatal errors the manual documents
InBufPfx == IF opt.array THEN 0 ELSE Len(pfx)
FatalRejectOverflow ==   \* REJECT scanner whose token does not fit its non-growing buffer
  /\ opt.rejectmode /\ opt.bufsize > 0
  /\ \/ phase = "scan" /\ InBufPfx + Len(buf) + 1 >= opt.bufsize
     \/ phase = "act" /\ buf = <<>> /\ Len(text) + eaten + 1 >= opt.bufsize   \* refill asked by yyinput()
  /\ phase' = "fatal"
  /\ UNCHANGED <<rs, opt, inp, buf, eof, sc, stk, bol, lineno, text, pfx, more, cands, buf0, bol0, line0, eaten, hist>>
FatalPushback ==         \* yyunput() beyond the push-back capacity (the buffer is full of pending text)
  /\ phase = "act" /\ opt.bufsize > 0 /\ Len(buf) + 3 >= opt.bufsize
  /\ phase' = "fatal"
  /\ UNCHANGED <<rs, opt, inp, buf, eof, sc, stk, bol, lineno, text, pfx, more, cands, buf0, bol0, line0, eaten, hist>>
=============================================================================

--------------------------- MODULE FlexCli ---------------------------
(***************************************************************************)
(* flex's option vocabulary and what each option must observably do        *)
(* (property C19).  The effect of an option is a predicate over a probe    *)
(* (a specification built for the purpose, generated, compiled and where   *)
(* needed run); lib/vf/options.py evaluates the probe and records          *)
(*   [opt, spelling \in {"cli","file","neg","pair"}, holds, same]          *)
(* holds: the documented effect was observed; same (spelling "file"): the  *)
(* scanner generated from the %option spelling is byte-identical to the    *)
(* one generated from the command-line spelling.                           *)
(* Options = the vocabulary that must be covered: TLC checks that every    *)
(* option has its observations (no effect predicate silently skipped) and  *)
(* that every observation holds.                                           *)
(***************************************************************************)
EXTENDS Naturals, Sequences, FiniteSets, TLC, Json, IOUtils

\* option -> spellings under which it must be probed
Options ==
  [ prefix |-> {"cli", "file"}, main |-> {"cli", "file"}, reentrant |-> {"cli", "file"}, bisonbridge |-> {"cli", "file"},
    bisonlocations |-> {"cli", "file"}, stack |-> {"cli", "file", "neg"}, array |-> {"cli", "file"}, pointer |-> {"cli", "file"},
    yylineno |-> {"cli", "file", "neg"}, debug |-> {"cli", "file"}, nodefault |-> {"cli", "file"}, caseinsensitive |-> {"cli", "file"},
    stdinit |-> {"cli", "file"}, nounistd |-> {"cli", "file"}, noline |-> {"cli", "file"}, nowarn |-> {"cli", "file"},
    cxx |-> {"cli", "file"}, emitc99 |-> {"cli", "file"}, outfile |-> {"cli", "file"}, headerfile |-> {"cli", "file"},
    backup |-> {"cli", "file"}, perfreport |-> {"cli", "file"}, verbose |-> {"cli", "file"}, alwaysinteractive |-> {"cli", "file"},
    neverinteractive |-> {"cli", "file"}, yywrap |-> {"file", "neg"}, yymore |-> {"file"}, reject |-> {"file"},
    extratype |-> {"file"}, bufsize |-> {"file"}, yydecl |-> {"file"}, yyterminate |-> {"file"}, preaction |-> {"file"}, preaction_bol |-> {"file"},
    postaction |-> {"file"}, userinit |-> {"file"}, noyyalloc |-> {"file"}, noyyread |-> {"file"}, nofunction |-> {"file"},
    noinput |-> {"file"}, yyclass |-> {"cli", "file"}, tablesfile |-> {"cli", "file"}, lexcompat |-> {"cli", "file"},
    posixcompat |-> {"cli", "file"}, prefix_tablesfile |-> {"cli", "file"}, nodefault_cxx |-> {"cli", "file"},
    \* character-set size and table representation, and the documented defaults of their combinations
    8bit |-> {"cli", "file"}, 7bit |-> {"cli", "file"}, default_8bit |-> {"cli"}, default_full_7bit |-> {"cli", "file"},
    default_fast_7bit |-> {"cli", "file"}, default_fullecs_8bit |-> {"cli", "file"}, default_fastecs_8bit |-> {"cli", "file"},
    full |-> {"cli", "file"}, fast |-> {"cli", "file"}, ecs |-> {"cli", "file"}, metaecs |-> {"cli", "file"}, noecs |-> {"cli", "file"},
    conflict_cxx_reentrant |-> {"pair"}, conflict_full_interactive |-> {"pair"}, conflict_full_reject |-> {"pair"},
    override_array_cxx |-> {"pair"} ]

Obs == ndJsonDeserialize(IOEnv.OBS)
VARIABLE i
Init == i = 1
Next == i < Len(Obs) /\ i' = i + 1
Spec == Init /\ [][Next]_i
O == Obs[i]

\* the documented effect is observed, through either spelling
Effect == O.holds
\* command line and %option mean the same: identical scanners
SameEitherWay == O.spelling = "file" => O.same
\* no option of the vocabulary is left unprobed
Covered == i = Len(Obs) =>
   \A o \in DOMAIN Options : \A s \in Options[o] : \E k \in 1..Len(Obs) : Obs[k].opt = o /\ Obs[k].spelling = s
=============================================================================

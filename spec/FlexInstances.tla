--------------------------- MODULE FlexInstances ---------------------------
(***************************************************************************)
(* Several scanner instances in one program (property C12).                *)
(*                                                                         *)
(* An instance is a FlexScanner machine of its own; a program may run any  *)
(* interleaving of their yylex() calls on one thread, run one inside an    *)
(* action of another, or run them on different threads.  Isolation says    *)
(* the projection of every such run on one instance is the run that        *)
(* instance makes alone.  Here the schedules are enumerated: TLC explores  *)
(* every interleaving of N instances making at most K calls each and       *)
(* exports the complete ones; lib/vf (check C12) replays each schedule     *)
(* through really generated reentrant scanners and compares every          *)
(* instance's recorded trace with its solo trace (which Trace_Scanner      *)
(* validates against FlexScanner).                                         *)
(***************************************************************************)
EXTENDS Naturals, Sequences, FiniteSets, TLC, Json, IOUtils

CONSTANTS N, K
VARIABLES pc,      \* pc[i]: calls instance i has made
          sched    \* the interleaving so far (sequence of instance numbers, 0-based)
Init == pc = [i \in 0..(N - 1) |-> 0] /\ sched = <<>>
Step(i) == pc[i] < K /\ pc' = [pc EXCEPT ![i] = @ + 1] /\ sched' = Append(sched, i)
Next == \E i \in 0..(N - 1) : Step(i)
Spec == Init /\ [][Next]_<<pc, sched>>

\* an instance's progress depends on its own calls only
Isolated == \A i \in 0..(N - 1) : pc[i] = Cardinality({k \in 1..Len(sched) : sched[k] = i})

Complete == \A i \in 0..(N - 1) : pc[i] = K
Collect == Complete => TLCSet(1, Append(TLCGet(1), sched))
Export == JsonSerialize(IOEnv.SCHEDULES, TLCGet(1))
ASSUME TLCSet(1, <<>>)
=============================================================================

SPECIFICATION HSpec
INVARIANT CleanMeansEmpty
PROPERTY NoUseAfterRefusal
CHECK_DEADLOCK FALSE

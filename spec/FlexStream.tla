---------------------------- MODULE FlexStream ----------------------------
(***************************************************************************)
(* The abstraction of an input buffer that FlexScanner works with, on its  *)
(* own: text consumed so far, text delivered by the source but not yet     *)
(* consumed (FlexScanner's variable buf), and what the source still holds. *)
(* FlexBuffer (the concrete yy_ch_buf geometry) is checked to refine this  *)
(* specification under the mapping consumed <- out, pending <- Pending,    *)
(* rest <- src (MC_Buffer: PROPERTY Refines).                              *)
(***************************************************************************)
EXTENDS Naturals, Sequences
VARIABLES consumed, pending, rest
svars == <<consumed, pending, rest>>

Init == consumed = <<>> /\ pending = <<>>
\* the source delivers its next k bytes: they become pending, in order, nothing else changes
Deliver(k) == /\ k \in 1..Len(rest)
              /\ pending' = pending \o SubSeq(rest, 1, k) /\ rest' = SubSeq(rest, k + 1, Len(rest))
              /\ UNCHANGED consumed
\* a token of k bytes is taken from the front of the pending text
Consume(k) == /\ k \in 1..Len(pending)
              /\ consumed' = consumed \o SubSeq(pending, 1, k) /\ pending' = SubSeq(pending, k + 1, Len(pending))
              /\ UNCHANGED rest
\* yyunput(c): c will be the next byte read
Unput(c) == pending' = <<c>> \o pending /\ UNCHANGED <<consumed, rest>>

Next == (\E k \in 1..Len(rest) : Deliver(k)) \/ (\E k \in 1..Len(pending) : Consume(k)) \/ (\E c \in 0..255 : Unput(c))
Spec == Init /\ [][Next]_svars
=============================================================================

--------------------------- MODULE FlexHeap ---------------------------
(***************************************************************************)
(* The allocation ledger of a generated scanner (properties C13, C14).     *)
(* Blocks are named by the order in which they were handed out.            *)
(*   - every block given to yyfree/yyrealloc came from yyalloc/yyrealloc   *)
(*     and is still live (no double free, no foreign pointer);             *)
(*   - once the user has deleted their own non-current buffers and called  *)
(*     yylex_destroy, nothing is live;                                     *)
(*   - after a failed request the scanner does nothing but report: the     *)
(*     fatal-error hook, or the documented error return of yylex_init.     *)
(***************************************************************************)
EXTENDS Naturals, FiniteSets

VARIABLES live,     \* set of live block names
          failed,   \* a request has been refused and not yet reported
          hphase    \* "run" | "dead" (fatal hook / error return) | "clean"
hvars == <<live, failed, hphase>>

HInit == live = {} /\ failed = FALSE /\ hphase = "clean"

HReset == /\ hphase \in {"clean", "dead"} /\ live' = {} /\ failed' = FALSE /\ hphase' = "run"

Alloc(p) == /\ hphase = "run" /\ ~failed /\ p \notin live /\ p # 0
            /\ live' = live \cup {p} /\ UNCHANGED <<failed, hphase>>
\* yyrealloc(NULL, n) behaves as yyalloc(n)
Realloc(old, p) == /\ hphase = "run" /\ ~failed /\ (old = 0 \/ old \in live) /\ p # 0 /\ p \notin (live \ {old})
                   /\ live' = (live \ {old}) \cup {p} /\ UNCHANGED <<failed, hphase>>
Free(p) == /\ hphase = "run" /\ ~failed /\ (p = 0 \/ p \in live)
           /\ live' = live \ {p} /\ UNCHANGED <<failed, hphase>>
Refuse == /\ hphase = "run" /\ ~failed /\ failed' = TRUE /\ UNCHANGED <<live, hphase>>
\* the only things that may follow a refusal
Fatal(cls) == /\ hphase = "run" /\ (cls = "oom" => failed) /\ hphase' = "dead" /\ failed' = FALSE /\ UNCHANGED live
InitFail(errno) == /\ hphase = "run" /\ failed /\ errno \in {12, 22} /\ live = {}     \* ENOMEM / EINVAL, nothing kept
                   /\ hphase' = "dead" /\ failed' = FALSE /\ UNCHANGED live
\* yylex_destroy() (after the user's own buffers were deleted): everything is back
Destroyed == /\ hphase = "run" /\ ~failed /\ live = {} /\ hphase' = "clean" /\ UNCHANGED <<live, failed>>

HNext == HReset \/ (\E p \in 0..3 : Alloc(p) \/ Free(p) \/ \E q \in 0..3 : Realloc(q, p)) \/ Refuse
         \/ Fatal("oom") \/ Fatal("other") \/ InitFail(12) \/ Destroyed
HSpec == HInit /\ [][HNext]_hvars

\* properties of the ledger itself (checked by TLC on the small model MC_Heap)
NoUseAfterRefusal == [][failed => (UNCHANGED live)]_hvars
CleanMeansEmpty == (hphase = "clean") => (live = {})
=============================================================================

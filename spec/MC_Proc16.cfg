SPECIFICATION Spec
INVARIANT Terminates
INVARIANT NoCrash
INVARIANT ExitHonest
CHECK_DEADLOCK FALSE

SPECIFICATION Spec
INVARIANT Terminates
INVARIANT NoCrash
INVARIANT ExitHonest
INVARIANT LimitReported
CHECK_DEADLOCK FALSE

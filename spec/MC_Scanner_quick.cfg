SPECIFICATION MSpec
CONSTANT RSets <- RSetsDef
CONSTANTS InLen = 2
          MaxOps = 3
VIEW MView
INVARIANT Conservation
INVARIANT LinenoExact
INVARIANT LongestFirst
INVARIANT EofOnlyAtEnd
PROPERTY ScOnly
PROPERTY StackLIFO
PROPERTY Isolation
CHECK_DEADLOCK FALSE

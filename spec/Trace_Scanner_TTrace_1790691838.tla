---- MODULE Trace_Scanner_TTrace_1790691838 ----
EXTENDS Sequences, TLCExt, Trace_Scanner, Toolbox, Naturals, TLC

_expression ==
    LET Trace_Scanner_TEExpression == INSTANCE Trace_Scanner_TEExpression
    IN Trace_Scanner_TEExpression!expression
----

_trace ==
    LET Trace_Scanner_TETrace == INSTANCE Trace_Scanner_TETrace
    IN Trace_Scanner_TETrace!trace
----

_inv ==
    ~(
        TLCGet("level") = Len(_TETrace)
        /\
        fid = (0)
        /\
        rs = (12)
        /\
        cur = (3)
        /\
        inited = (TRUE)
        /\
        pfx = (<<>>)
        /\
        saved = (<<[lineno |-> 1, bol |-> TRUE, buf |-> <<>>, fid |-> 1, fresh |-> TRUE, eof |-> FALSE]>>)
        /\
        caps = ((0 :> 0 @@ 1 :> 16384 @@ 2 :> 16384 @@ 3 :> 0 @@ 4 :> 0 @@ 5 :> 0 @@ 6 :> 0 @@ 7 :> 0 @@ 8 :> 0 @@ 9 :> 0 @@ 10 :> 0 @@ 11 :> 0 @@ 12 :> 0 @@ 13 :> 0 @@ 14 :> 0 @@ 15 :> 0 @@ 16 :> 0 @@ 17 :> 0 @@ 18 :> 0 @@ 19 :> 0 @@ 20 :> 0 @@ 21 :> 0 @@ 22 :> 0 @@ 23 :> 0 @@ 24 :> 0 @@ 25 :> 0 @@ 26 :> 0 @@ 27 :> 0 @@ 28 :> 0 @@ 29 :> 0 @@ 30 :> 0 @@ 31 :> 0 @@ 32 :> 0 @@ 33 :> 0 @@ 34 :> 0 @@ 35 :> 0 @@ 36 :> 0 @@ 37 :> 0 @@ 38 :> 0 @@ 39 :> 0 @@ 40 :> 0 @@ 41 :> 0 @@ 42 :> 0 @@ 43 :> 0 @@ 44 :> 0 @@ 45 :> 0 @@ 46 :> 0 @@ 47 :> 0 @@ 48 :> 0 @@ 49 :> 0 @@ 50 :> 0 @@ 51 :> 0 @@ 52 :> 0 @@ 53 :> 0 @@ 54 :> 0 @@ 55 :> 0 @@ 56 :> 0 @@ 57 :> 0 @@ 58 :> 0 @@ 59 :> 0 @@ 60 :> 0 @@ 61 :> 0 @@ 62 :> 0 @@ 63 :> 0 @@ 64 :> 0))
        /\
        sc = (0)
        /\
        hist = (<<<<"tok", 5, <<98, 108>>>>, <<"tok", 5, <<97>>>>, <<"tok", 5, <<98, 108>>>>>>)
        /\
        text = (<<98, 108>>)
        /\
        wfrom = ("scan")
        /\
        line0 = (1)
        /\
        phase = ("scan")
        /\
        rfault = (0)
        /\
        bstack = (<<3>>)
        /\
        more = (FALSE)
        /\
        stk = (<<0>>)
        /\
        l = (32)
        /\
        buf = (<<>>)
        /\
        opt = ([reentrant |-> FALSE, bolneeded |-> FALSE, interactive |-> FALSE, array |-> FALSE, lno |-> TRUE, rejectmode |-> FALSE, bufsize |-> 0, strictread |-> FALSE, userwrap |-> TRUE, failalloc |-> 0, stdio |-> FALSE, yylmax |-> 8192])
        /\
        buf0 = (<<98, 108>>)
        /\
        lineno = (1)
        /\
        switched = (FALSE)
        /\
        files = (<<<<98, 108>>, <<>>>>)
        /\
        eaten = (0)
        /\
        fresh = (TRUE)
        /\
        eof = (FALSE)
        /\
        yyin = (0)
        /\
        bol = (TRUE)
        /\
        cands = (<<>>)
        /\
        bol0 = (TRUE)
    )
----

_init ==
    /\ inited = _TETrace[1].inited
    /\ text = _TETrace[1].text
    /\ eaten = _TETrace[1].eaten
    /\ l = _TETrace[1].l
    /\ eof = _TETrace[1].eof
    /\ fid = _TETrace[1].fid
    /\ buf0 = _TETrace[1].buf0
    /\ fresh = _TETrace[1].fresh
    /\ bol = _TETrace[1].bol
    /\ cands = _TETrace[1].cands
    /\ wfrom = _TETrace[1].wfrom
    /\ caps = _TETrace[1].caps
    /\ more = _TETrace[1].more
    /\ phase = _TETrace[1].phase
    /\ saved = _TETrace[1].saved
    /\ pfx = _TETrace[1].pfx
    /\ rfault = _TETrace[1].rfault
    /\ buf = _TETrace[1].buf
    /\ line0 = _TETrace[1].line0
    /\ yyin = _TETrace[1].yyin
    /\ opt = _TETrace[1].opt
    /\ rs = _TETrace[1].rs
    /\ sc = _TETrace[1].sc
    /\ bstack = _TETrace[1].bstack
    /\ switched = _TETrace[1].switched
    /\ hist = _TETrace[1].hist
    /\ files = _TETrace[1].files
    /\ stk = _TETrace[1].stk
    /\ bol0 = _TETrace[1].bol0
    /\ cur = _TETrace[1].cur
    /\ lineno = _TETrace[1].lineno
----

_next ==
    /\ \E i,j \in DOMAIN _TETrace:
        /\ \/ /\ j = i + 1
              /\ i = TLCGet("level")
        /\ inited  = _TETrace[i].inited
        /\ inited' = _TETrace[j].inited
        /\ text  = _TETrace[i].text
        /\ text' = _TETrace[j].text
        /\ eaten  = _TETrace[i].eaten
        /\ eaten' = _TETrace[j].eaten
        /\ l  = _TETrace[i].l
        /\ l' = _TETrace[j].l
        /\ eof  = _TETrace[i].eof
        /\ eof' = _TETrace[j].eof
        /\ fid  = _TETrace[i].fid
        /\ fid' = _TETrace[j].fid
        /\ buf0  = _TETrace[i].buf0
        /\ buf0' = _TETrace[j].buf0
        /\ fresh  = _TETrace[i].fresh
        /\ fresh' = _TETrace[j].fresh
        /\ bol  = _TETrace[i].bol
        /\ bol' = _TETrace[j].bol
        /\ cands  = _TETrace[i].cands
        /\ cands' = _TETrace[j].cands
        /\ wfrom  = _TETrace[i].wfrom
        /\ wfrom' = _TETrace[j].wfrom
        /\ caps  = _TETrace[i].caps
        /\ caps' = _TETrace[j].caps
        /\ more  = _TETrace[i].more
        /\ more' = _TETrace[j].more
        /\ phase  = _TETrace[i].phase
        /\ phase' = _TETrace[j].phase
        /\ saved  = _TETrace[i].saved
        /\ saved' = _TETrace[j].saved
        /\ pfx  = _TETrace[i].pfx
        /\ pfx' = _TETrace[j].pfx
        /\ rfault  = _TETrace[i].rfault
        /\ rfault' = _TETrace[j].rfault
        /\ buf  = _TETrace[i].buf
        /\ buf' = _TETrace[j].buf
        /\ line0  = _TETrace[i].line0
        /\ line0' = _TETrace[j].line0
        /\ yyin  = _TETrace[i].yyin
        /\ yyin' = _TETrace[j].yyin
        /\ opt  = _TETrace[i].opt
        /\ opt' = _TETrace[j].opt
        /\ rs  = _TETrace[i].rs
        /\ rs' = _TETrace[j].rs
        /\ sc  = _TETrace[i].sc
        /\ sc' = _TETrace[j].sc
        /\ bstack  = _TETrace[i].bstack
        /\ bstack' = _TETrace[j].bstack
        /\ switched  = _TETrace[i].switched
        /\ switched' = _TETrace[j].switched
        /\ hist  = _TETrace[i].hist
        /\ hist' = _TETrace[j].hist
        /\ files  = _TETrace[i].files
        /\ files' = _TETrace[j].files
        /\ stk  = _TETrace[i].stk
        /\ stk' = _TETrace[j].stk
        /\ bol0  = _TETrace[i].bol0
        /\ bol0' = _TETrace[j].bol0
        /\ cur  = _TETrace[i].cur
        /\ cur' = _TETrace[j].cur
        /\ lineno  = _TETrace[i].lineno
        /\ lineno' = _TETrace[j].lineno

\* Uncomment the ASSUME below to write the states of the error trace
\* to the given file in Json format. Note that you can pass any tuple
\* to `JsonSerialize`. For example, a sub-sequence of _TETrace.
    \* ASSUME
    \*     LET J == INSTANCE Json
    \*         IN J!JsonSerialize("Trace_Scanner_TTrace_1790691838.json", _TETrace)

=============================================================================

 Note that you can extract this module `Trace_Scanner_TEExpression`
  to a dedicated file to reuse `expression` (the module in the 
  dedicated `Trace_Scanner_TEExpression.tla` file takes precedence 
  over the module `Trace_Scanner_TEExpression` below).

---- MODULE Trace_Scanner_TEExpression ----
EXTENDS Sequences, TLCExt, Trace_Scanner, Toolbox, Naturals, TLC

expression == 
    [
        \* To hide variables of the `Trace_Scanner` spec from the error trace,
        \* remove the variables below.  The trace will be written in the order
        \* of the fields of this record.
        inited |-> inited
        ,text |-> text
        ,eaten |-> eaten
        ,l |-> l
        ,eof |-> eof
        ,fid |-> fid
        ,buf0 |-> buf0
        ,fresh |-> fresh
        ,bol |-> bol
        ,cands |-> cands
        ,wfrom |-> wfrom
        ,caps |-> caps
        ,more |-> more
        ,phase |-> phase
        ,saved |-> saved
        ,pfx |-> pfx
        ,rfault |-> rfault
        ,buf |-> buf
        ,line0 |-> line0
        ,yyin |-> yyin
        ,opt |-> opt
        ,rs |-> rs
        ,sc |-> sc
        ,bstack |-> bstack
        ,switched |-> switched
        ,hist |-> hist
        ,files |-> files
        ,stk |-> stk
        ,bol0 |-> bol0
        ,cur |-> cur
        ,lineno |-> lineno
        
        \* Put additional constant-, state-, and action-level expressions here:
        \* ,_stateNumber |-> _TEPosition
        \* ,_initedUnchanged |-> inited = inited'
        
        \* Format the `inited` variable as Json value.
        \* ,_initedJson |->
        \*     LET J == INSTANCE Json
        \*     IN J!ToJson(inited)
        
        \* Lastly, you may build expressions over arbitrary sets of states by
        \* leveraging the _TETrace operator.  For example, this is how to
        \* count the number of times a spec variable changed up to the current
        \* state in the trace.
        \* ,_initedModCount |->
        \*     LET F[s \in DOMAIN _TETrace] ==
        \*         IF s = 1 THEN 0
        \*         ELSE IF _TETrace[s].inited # _TETrace[s-1].inited
        \*             THEN 1 + F[s-1] ELSE F[s-1]
        \*     IN F[_TEPosition - 1]
    ]

=============================================================================



Parsing and semantic processing can take forever if the trace below is long.
 In this case, it is advised to uncomment the module below to deserialize the
 trace from a generated binary file.

\*
\*---- MODULE Trace_Scanner_TETrace ----
\*EXTENDS IOUtils, Trace_Scanner, TLC
\*
\*trace == IODeserialize("Trace_Scanner_TTrace_1790691838.bin", TRUE)
\*
\*=============================================================================
\*

---- MODULE Trace_Scanner_TETrace ----
EXTENDS Trace_Scanner, TLC

trace == 
    <<
    ([fid |-> 1,rs |-> 1,cur |-> 1,inited |-> FALSE,pfx |-> <<>>,saved |-> <<>>,caps |-> (0 :> 0 @@ 1 :> 0 @@ 2 :> 0 @@ 3 :> 0 @@ 4 :> 0 @@ 5 :> 0 @@ 6 :> 0 @@ 7 :> 0 @@ 8 :> 0 @@ 9 :> 0 @@ 10 :> 0 @@ 11 :> 0 @@ 12 :> 0 @@ 13 :> 0 @@ 14 :> 0 @@ 15 :> 0 @@ 16 :> 0 @@ 17 :> 0 @@ 18 :> 0 @@ 19 :> 0 @@ 20 :> 0 @@ 21 :> 0 @@ 22 :> 0 @@ 23 :> 0 @@ 24 :> 0 @@ 25 :> 0 @@ 26 :> 0 @@ 27 :> 0 @@ 28 :> 0 @@ 29 :> 0 @@ 30 :> 0 @@ 31 :> 0 @@ 32 :> 0 @@ 33 :> 0 @@ 34 :> 0 @@ 35 :> 0 @@ 36 :> 0 @@ 37 :> 0 @@ 38 :> 0 @@ 39 :> 0 @@ 40 :> 0 @@ 41 :> 0 @@ 42 :> 0 @@ 43 :> 0 @@ 44 :> 0 @@ 45 :> 0 @@ 46 :> 0 @@ 47 :> 0 @@ 48 :> 0 @@ 49 :> 0 @@ 50 :> 0 @@ 51 :> 0 @@ 52 :> 0 @@ 53 :> 0 @@ 54 :> 0 @@ 55 :> 0 @@ 56 :> 0 @@ 57 :> 0 @@ 58 :> 0 @@ 59 :> 0 @@ 60 :> 0 @@ 61 :> 0 @@ 62 :> 0 @@ 63 :> 0 @@ 64 :> 0),sc |-> 0,hist |-> <<>>,text |-> <<>>,wfrom |-> "scan",line0 |-> 1,phase |-> "done",rfault |-> 0,bstack |-> <<1>>,more |-> FALSE,stk |-> <<>>,l |-> 1,buf |-> <<>>,opt |-> [reentrant |-> FALSE, bolneeded |-> TRUE, interactive |-> TRUE, array |-> FALSE, lno |-> TRUE, rejectmode |-> FALSE, bufsize |-> 0, strictread |-> TRUE, userwrap |-> FALSE, failalloc |-> 0, stdio |-> FALSE, yylmax |-> 8192],buf0 |-> <<>>,lineno |-> 1,switched |-> FALSE,files |-> <<>>,eaten |-> 0,fresh |-> TRUE,eof |-> FALSE,yyin |-> 1,bol |-> TRUE,cands |-> <<>>,bol0 |-> TRUE]),
    ([fid |-> 1,rs |-> 12,cur |-> 0,inited |-> FALSE,pfx |-> <<>>,saved |-> <<>>,caps |-> (0 :> 0 @@ 1 :> 0 @@ 2 :> 0 @@ 3 :> 0 @@ 4 :> 0 @@ 5 :> 0 @@ 6 :> 0 @@ 7 :> 0 @@ 8 :> 0 @@ 9 :> 0 @@ 10 :> 0 @@ 11 :> 0 @@ 12 :> 0 @@ 13 :> 0 @@ 14 :> 0 @@ 15 :> 0 @@ 16 :> 0 @@ 17 :> 0 @@ 18 :> 0 @@ 19 :> 0 @@ 20 :> 0 @@ 21 :> 0 @@ 22 :> 0 @@ 23 :> 0 @@ 24 :> 0 @@ 25 :> 0 @@ 26 :> 0 @@ 27 :> 0 @@ 28 :> 0 @@ 29 :> 0 @@ 30 :> 0 @@ 31 :> 0 @@ 32 :> 0 @@ 33 :> 0 @@ 34 :> 0 @@ 35 :> 0 @@ 36 :> 0 @@ 37 :> 0 @@ 38 :> 0 @@ 39 :> 0 @@ 40 :> 0 @@ 41 :> 0 @@ 42 :> 0 @@ 43 :> 0 @@ 44 :> 0 @@ 45 :> 0 @@ 46 :> 0 @@ 47 :> 0 @@ 48 :> 0 @@ 49 :> 0 @@ 50 :> 0 @@ 51 :> 0 @@ 52 :> 0 @@ 53 :> 0 @@ 54 :> 0 @@ 55 :> 0 @@ 56 :> 0 @@ 57 :> 0 @@ 58 :> 0 @@ 59 :> 0 @@ 60 :> 0 @@ 61 :> 0 @@ 62 :> 0 @@ 63 :> 0 @@ 64 :> 0),sc |-> 0,hist |-> <<>>,text |-> <<>>,wfrom |-> "scan",line0 |-> 1,phase |-> "out",rfault |-> 0,bstack |-> <<>>,more |-> FALSE,stk |-> <<>>,l |-> 2,buf |-> <<>>,opt |-> [reentrant |-> FALSE, bolneeded |-> FALSE, interactive |-> FALSE, array |-> FALSE, lno |-> TRUE, rejectmode |-> FALSE, bufsize |-> 0, strictread |-> FALSE, userwrap |-> TRUE, failalloc |-> 0, stdio |-> FALSE, yylmax |-> 8192],buf0 |-> <<>>,lineno |-> 1,switched |-> FALSE,files |-> <<<<98, 108>>, <<97>>>>,eaten |-> 0,fresh |-> TRUE,eof |-> FALSE,yyin |-> 1,bol |-> TRUE,cands |-> <<>>,bol0 |-> TRUE]),
    ([fid |-> 1,rs |-> 12,cur |-> 1,inited |-> TRUE,pfx |-> <<>>,saved |-> <<>>,caps |-> (0 :> 0 @@ 1 :> 0 @@ 2 :> 0 @@ 3 :> 0 @@ 4 :> 0 @@ 5 :> 0 @@ 6 :> 0 @@ 7 :> 0 @@ 8 :> 0 @@ 9 :> 0 @@ 10 :> 0 @@ 11 :> 0 @@ 12 :> 0 @@ 13 :> 0 @@ 14 :> 0 @@ 15 :> 0 @@ 16 :> 0 @@ 17 :> 0 @@ 18 :> 0 @@ 19 :> 0 @@ 20 :> 0 @@ 21 :> 0 @@ 22 :> 0 @@ 23 :> 0 @@ 24 :> 0 @@ 25 :> 0 @@ 26 :> 0 @@ 27 :> 0 @@ 28 :> 0 @@ 29 :> 0 @@ 30 :> 0 @@ 31 :> 0 @@ 32 :> 0 @@ 33 :> 0 @@ 34 :> 0 @@ 35 :> 0 @@ 36 :> 0 @@ 37 :> 0 @@ 38 :> 0 @@ 39 :> 0 @@ 40 :> 0 @@ 41 :> 0 @@ 42 :> 0 @@ 43 :> 0 @@ 44 :> 0 @@ 45 :> 0 @@ 46 :> 0 @@ 47 :> 0 @@ 48 :> 0 @@ 49 :> 0 @@ 50 :> 0 @@ 51 :> 0 @@ 52 :> 0 @@ 53 :> 0 @@ 54 :> 0 @@ 55 :> 0 @@ 56 :> 0 @@ 57 :> 0 @@ 58 :> 0 @@ 59 :> 0 @@ 60 :> 0 @@ 61 :> 0 @@ 62 :> 0 @@ 63 :> 0 @@ 64 :> 0),sc |-> 0,hist |-> <<>>,text |-> <<>>,wfrom |-> "scan",line0 |-> 1,phase |-> "scan",rfault |-> 0,bstack |-> <<1>>,more |-> FALSE,stk |-> <<>>,l |-> 3,buf |-> <<>>,opt |-> [reentrant |-> FALSE, bolneeded |-> FALSE, interactive |-> FALSE, array |-> FALSE, lno |-> TRUE, rejectmode |-> FALSE, bufsize |-> 0, strictread |-> FALSE, userwrap |-> TRUE, failalloc |-> 0, stdio |-> FALSE, yylmax |-> 8192],buf0 |-> <<>>,lineno |-> 1,switched |-> FALSE,files |-> <<<<98, 108>>, <<97>>>>,eaten |-> 0,fresh |-> TRUE,eof |-> FALSE,yyin |-> 1,bol |-> TRUE,cands |-> <<>>,bol0 |-> TRUE]),
    ([fid |-> 1,rs |-> 12,cur |-> 1,inited |-> TRUE,pfx |-> <<>>,saved |-> <<>>,caps |-> (0 :> 0 @@ 1 :> 16384 @@ 2 :> 0 @@ 3 :> 0 @@ 4 :> 0 @@ 5 :> 0 @@ 6 :> 0 @@ 7 :> 0 @@ 8 :> 0 @@ 9 :> 0 @@ 10 :> 0 @@ 11 :> 0 @@ 12 :> 0 @@ 13 :> 0 @@ 14 :> 0 @@ 15 :> 0 @@ 16 :> 0 @@ 17 :> 0 @@ 18 :> 0 @@ 19 :> 0 @@ 20 :> 0 @@ 21 :> 0 @@ 22 :> 0 @@ 23 :> 0 @@ 24 :> 0 @@ 25 :> 0 @@ 26 :> 0 @@ 27 :> 0 @@ 28 :> 0 @@ 29 :> 0 @@ 30 :> 0 @@ 31 :> 0 @@ 32 :> 0 @@ 33 :> 0 @@ 34 :> 0 @@ 35 :> 0 @@ 36 :> 0 @@ 37 :> 0 @@ 38 :> 0 @@ 39 :> 0 @@ 40 :> 0 @@ 41 :> 0 @@ 42 :> 0 @@ 43 :> 0 @@ 44 :> 0 @@ 45 :> 0 @@ 46 :> 0 @@ 47 :> 0 @@ 48 :> 0 @@ 49 :> 0 @@ 50 :> 0 @@ 51 :> 0 @@ 52 :> 0 @@ 53 :> 0 @@ 54 :> 0 @@ 55 :> 0 @@ 56 :> 0 @@ 57 :> 0 @@ 58 :> 0 @@ 59 :> 0 @@ 60 :> 0 @@ 61 :> 0 @@ 62 :> 0 @@ 63 :> 0 @@ 64 :> 0),sc |-> 0,hist |-> <<>>,text |-> <<>>,wfrom |-> "scan",line0 |-> 1,phase |-> "scan",rfault |-> 0,bstack |-> <<1>>,more |-> FALSE,stk |-> <<>>,l |-> 4,buf |-> <<98, 108>>,opt |-> [reentrant |-> FALSE, bolneeded |-> FALSE, interactive |-> FALSE, array |-> FALSE, lno |-> TRUE, rejectmode |-> FALSE, bufsize |-> 0, strictread |-> FALSE, userwrap |-> TRUE, failalloc |-> 0, stdio |-> FALSE, yylmax |-> 8192],buf0 |-> <<>>,lineno |-> 1,switched |-> FALSE,files |-> <<<<>>, <<97>>>>,eaten |-> 0,fresh |-> FALSE,eof |-> FALSE,yyin |-> 1,bol |-> TRUE,cands |-> <<>>,bol0 |-> TRUE]),
    ([fid |-> 1,rs |-> 12,cur |-> 1,inited |-> TRUE,pfx |-> <<>>,saved |-> <<>>,caps |-> (0 :> 0 @@ 1 :> 16384 @@ 2 :> 0 @@ 3 :> 0 @@ 4 :> 0 @@ 5 :> 0 @@ 6 :> 0 @@ 7 :> 0 @@ 8 :> 0 @@ 9 :> 0 @@ 10 :> 0 @@ 11 :> 0 @@ 12 :> 0 @@ 13 :> 0 @@ 14 :> 0 @@ 15 :> 0 @@ 16 :> 0 @@ 17 :> 0 @@ 18 :> 0 @@ 19 :> 0 @@ 20 :> 0 @@ 21 :> 0 @@ 22 :> 0 @@ 23 :> 0 @@ 24 :> 0 @@ 25 :> 0 @@ 26 :> 0 @@ 27 :> 0 @@ 28 :> 0 @@ 29 :> 0 @@ 30 :> 0 @@ 31 :> 0 @@ 32 :> 0 @@ 33 :> 0 @@ 34 :> 0 @@ 35 :> 0 @@ 36 :> 0 @@ 37 :> 0 @@ 38 :> 0 @@ 39 :> 0 @@ 40 :> 0 @@ 41 :> 0 @@ 42 :> 0 @@ 43 :> 0 @@ 44 :> 0 @@ 45 :> 0 @@ 46 :> 0 @@ 47 :> 0 @@ 48 :> 0 @@ 49 :> 0 @@ 50 :> 0 @@ 51 :> 0 @@ 52 :> 0 @@ 53 :> 0 @@ 54 :> 0 @@ 55 :> 0 @@ 56 :> 0 @@ 57 :> 0 @@ 58 :> 0 @@ 59 :> 0 @@ 60 :> 0 @@ 61 :> 0 @@ 62 :> 0 @@ 63 :> 0 @@ 64 :> 0),sc |-> 0,hist |-> <<>>,text |-> <<>>,wfrom |-> "scan",line0 |-> 1,phase |-> "scan",rfault |-> 0,bstack |-> <<1>>,more |-> FALSE,stk |-> <<>>,l |-> 5,buf |-> <<98, 108>>,opt |-> [reentrant |-> FALSE, bolneeded |-> FALSE, interactive |-> FALSE, array |-> FALSE, lno |-> TRUE, rejectmode |-> FALSE, bufsize |-> 0, strictread |-> FALSE, userwrap |-> TRUE, failalloc |-> 0, stdio |-> FALSE, yylmax |-> 8192],buf0 |-> <<>>,lineno |-> 1,switched |-> FALSE,files |-> <<<<>>, <<97>>>>,eaten |-> 0,fresh |-> FALSE,eof |-> TRUE,yyin |-> 1,bol |-> TRUE,cands |-> <<>>,bol0 |-> TRUE]),
    ([fid |-> 1,rs |-> 12,cur |-> 1,inited |-> TRUE,pfx |-> <<>>,saved |-> <<>>,caps |-> (0 :> 0 @@ 1 :> 16384 @@ 2 :> 0 @@ 3 :> 0 @@ 4 :> 0 @@ 5 :> 0 @@ 6 :> 0 @@ 7 :> 0 @@ 8 :> 0 @@ 9 :> 0 @@ 10 :> 0 @@ 11 :> 0 @@ 12 :> 0 @@ 13 :> 0 @@ 14 :> 0 @@ 15 :> 0 @@ 16 :> 0 @@ 17 :> 0 @@ 18 :> 0 @@ 19 :> 0 @@ 20 :> 0 @@ 21 :> 0 @@ 22 :> 0 @@ 23 :> 0 @@ 24 :> 0 @@ 25 :> 0 @@ 26 :> 0 @@ 27 :> 0 @@ 28 :> 0 @@ 29 :> 0 @@ 30 :> 0 @@ 31 :> 0 @@ 32 :> 0 @@ 33 :> 0 @@ 34 :> 0 @@ 35 :> 0 @@ 36 :> 0 @@ 37 :> 0 @@ 38 :> 0 @@ 39 :> 0 @@ 40 :> 0 @@ 41 :> 0 @@ 42 :> 0 @@ 43 :> 0 @@ 44 :> 0 @@ 45 :> 0 @@ 46 :> 0 @@ 47 :> 0 @@ 48 :> 0 @@ 49 :> 0 @@ 50 :> 0 @@ 51 :> 0 @@ 52 :> 0 @@ 53 :> 0 @@ 54 :> 0 @@ 55 :> 0 @@ 56 :> 0 @@ 57 :> 0 @@ 58 :> 0 @@ 59 :> 0 @@ 60 :> 0 @@ 61 :> 0 @@ 62 :> 0 @@ 63 :> 0 @@ 64 :> 0),sc |-> 0,hist |-> <<<<"tok", 5, <<98, 108>>>>>>,text |-> <<98, 108>>,wfrom |-> "scan",line0 |-> 1,phase |-> "act",rfault |-> 0,bstack |-> <<1>>,more |-> FALSE,stk |-> <<>>,l |-> 6,buf |-> <<>>,opt |-> [reentrant |-> FALSE, bolneeded |-> FALSE, interactive |-> FALSE, array |-> FALSE, lno |-> TRUE, rejectmode |-> FALSE, bufsize |-> 0, strictread |-> FALSE, userwrap |-> TRUE, failalloc |-> 0, stdio |-> FALSE, yylmax |-> 8192],buf0 |-> <<98, 108>>,lineno |-> 1,switched |-> FALSE,files |-> <<<<>>, <<97>>>>,eaten |-> 0,fresh |-> FALSE,eof |-> TRUE,yyin |-> 1,bol |-> FALSE,cands |-> <<<<5, 1>>, <<7, 1>>>>,bol0 |-> TRUE]),
    ([fid |-> 1,rs |-> 12,cur |-> 1,inited |-> TRUE,pfx |-> <<>>,saved |-> <<>>,caps |-> (0 :> 0 @@ 1 :> 16384 @@ 2 :> 0 @@ 3 :> 0 @@ 4 :> 0 @@ 5 :> 0 @@ 6 :> 0 @@ 7 :> 0 @@ 8 :> 0 @@ 9 :> 0 @@ 10 :> 0 @@ 11 :> 0 @@ 12 :> 0 @@ 13 :> 0 @@ 14 :> 0 @@ 15 :> 0 @@ 16 :> 0 @@ 17 :> 0 @@ 18 :> 0 @@ 19 :> 0 @@ 20 :> 0 @@ 21 :> 0 @@ 22 :> 0 @@ 23 :> 0 @@ 24 :> 0 @@ 25 :> 0 @@ 26 :> 0 @@ 27 :> 0 @@ 28 :> 0 @@ 29 :> 0 @@ 30 :> 0 @@ 31 :> 0 @@ 32 :> 0 @@ 33 :> 0 @@ 34 :> 0 @@ 35 :> 0 @@ 36 :> 0 @@ 37 :> 0 @@ 38 :> 0 @@ 39 :> 0 @@ 40 :> 0 @@ 41 :> 0 @@ 42 :> 0 @@ 43 :> 0 @@ 44 :> 0 @@ 45 :> 0 @@ 46 :> 0 @@ 47 :> 0 @@ 48 :> 0 @@ 49 :> 0 @@ 50 :> 0 @@ 51 :> 0 @@ 52 :> 0 @@ 53 :> 0 @@ 54 :> 0 @@ 55 :> 0 @@ 56 :> 0 @@ 57 :> 0 @@ 58 :> 0 @@ 59 :> 0 @@ 60 :> 0 @@ 61 :> 0 @@ 62 :> 0 @@ 63 :> 0 @@ 64 :> 0),sc |-> 0,hist |-> <<<<"tok", 5, <<98, 108>>>>>>,text |-> <<98, 108>>,wfrom |-> "scan",line0 |-> 1,phase |-> "act",rfault |-> 0,bstack |-> <<1>>,more |-> FALSE,stk |-> <<>>,l |-> 7,buf |-> <<>>,opt |-> [reentrant |-> FALSE, bolneeded |-> FALSE, interactive |-> FALSE, array |-> FALSE, lno |-> TRUE, rejectmode |-> FALSE, bufsize |-> 0, strictread |-> FALSE, userwrap |-> TRUE, failalloc |-> 0, stdio |-> FALSE, yylmax |-> 8192],buf0 |-> <<98, 108>>,lineno |-> 1,switched |-> FALSE,files |-> <<<<>>, <<97>>>>,eaten |-> 0,fresh |-> FALSE,eof |-> TRUE,yyin |-> 1,bol |-> FALSE,cands |-> <<<<5, 1>>, <<7, 1>>>>,bol0 |-> TRUE]),
    ([fid |-> 1,rs |-> 12,cur |-> 1,inited |-> TRUE,pfx |-> <<>>,saved |-> <<>>,caps |-> (0 :> 0 @@ 1 :> 16384 @@ 2 :> 0 @@ 3 :> 0 @@ 4 :> 0 @@ 5 :> 0 @@ 6 :> 0 @@ 7 :> 0 @@ 8 :> 0 @@ 9 :> 0 @@ 10 :> 0 @@ 11 :> 0 @@ 12 :> 0 @@ 13 :> 0 @@ 14 :> 0 @@ 15 :> 0 @@ 16 :> 0 @@ 17 :> 0 @@ 18 :> 0 @@ 19 :> 0 @@ 20 :> 0 @@ 21 :> 0 @@ 22 :> 0 @@ 23 :> 0 @@ 24 :> 0 @@ 25 :> 0 @@ 26 :> 0 @@ 27 :> 0 @@ 28 :> 0 @@ 29 :> 0 @@ 30 :> 0 @@ 31 :> 0 @@ 32 :> 0 @@ 33 :> 0 @@ 34 :> 0 @@ 35 :> 0 @@ 36 :> 0 @@ 37 :> 0 @@ 38 :> 0 @@ 39 :> 0 @@ 40 :> 0 @@ 41 :> 0 @@ 42 :> 0 @@ 43 :> 0 @@ 44 :> 0 @@ 45 :> 0 @@ 46 :> 0 @@ 47 :> 0 @@ 48 :> 0 @@ 49 :> 0 @@ 50 :> 0 @@ 51 :> 0 @@ 52 :> 0 @@ 53 :> 0 @@ 54 :> 0 @@ 55 :> 0 @@ 56 :> 0 @@ 57 :> 0 @@ 58 :> 0 @@ 59 :> 0 @@ 60 :> 0 @@ 61 :> 0 @@ 62 :> 0 @@ 63 :> 0 @@ 64 :> 0),sc |-> 0,hist |-> <<<<"tok", 5, <<98, 108>>>>>>,text |-> <<98, 108>>,wfrom |-> "scan",line0 |-> 1,phase |-> "act",rfault |-> 0,bstack |-> <<1>>,more |-> FALSE,stk |-> <<0>>,l |-> 8,buf |-> <<>>,opt |-> [reentrant |-> FALSE, bolneeded |-> FALSE, interactive |-> FALSE, array |-> FALSE, lno |-> TRUE, rejectmode |-> FALSE, bufsize |-> 0, strictread |-> FALSE, userwrap |-> TRUE, failalloc |-> 0, stdio |-> FALSE, yylmax |-> 8192],buf0 |-> <<98, 108>>,lineno |-> 1,switched |-> FALSE,files |-> <<<<>>, <<97>>>>,eaten |-> 0,fresh |-> FALSE,eof |-> TRUE,yyin |-> 1,bol |-> FALSE,cands |-> <<<<5, 1>>, <<7, 1>>>>,bol0 |-> TRUE]),
    ([fid |-> 1,rs |-> 12,cur |-> 1,inited |-> TRUE,pfx |-> <<>>,saved |-> <<>>,caps |-> (0 :> 0 @@ 1 :> 16384 @@ 2 :> 0 @@ 3 :> 0 @@ 4 :> 0 @@ 5 :> 0 @@ 6 :> 0 @@ 7 :> 0 @@ 8 :> 0 @@ 9 :> 0 @@ 10 :> 0 @@ 11 :> 0 @@ 12 :> 0 @@ 13 :> 0 @@ 14 :> 0 @@ 15 :> 0 @@ 16 :> 0 @@ 17 :> 0 @@ 18 :> 0 @@ 19 :> 0 @@ 20 :> 0 @@ 21 :> 0 @@ 22 :> 0 @@ 23 :> 0 @@ 24 :> 0 @@ 25 :> 0 @@ 26 :> 0 @@ 27 :> 0 @@ 28 :> 0 @@ 29 :> 0 @@ 30 :> 0 @@ 31 :> 0 @@ 32 :> 0 @@ 33 :> 0 @@ 34 :> 0 @@ 35 :> 0 @@ 36 :> 0 @@ 37 :> 0 @@ 38 :> 0 @@ 39 :> 0 @@ 40 :> 0 @@ 41 :> 0 @@ 42 :> 0 @@ 43 :> 0 @@ 44 :> 0 @@ 45 :> 0 @@ 46 :> 0 @@ 47 :> 0 @@ 48 :> 0 @@ 49 :> 0 @@ 50 :> 0 @@ 51 :> 0 @@ 52 :> 0 @@ 53 :> 0 @@ 54 :> 0 @@ 55 :> 0 @@ 56 :> 0 @@ 57 :> 0 @@ 58 :> 0 @@ 59 :> 0 @@ 60 :> 0 @@ 61 :> 0 @@ 62 :> 0 @@ 63 :> 0 @@ 64 :> 0),sc |-> 0,hist |-> <<<<"tok", 5, <<98, 108>>>>>>,text |-> <<98, 108>>,wfrom |-> "scan",line0 |-> 1,phase |-> "scan",rfault |-> 0,bstack |-> <<1>>,more |-> FALSE,stk |-> <<0>>,l |-> 9,buf |-> <<>>,opt |-> [reentrant |-> FALSE, bolneeded |-> FALSE, interactive |-> FALSE, array |-> FALSE, lno |-> TRUE, rejectmode |-> FALSE, bufsize |-> 0, strictread |-> FALSE, userwrap |-> TRUE, failalloc |-> 0, stdio |-> FALSE, yylmax |-> 8192],buf0 |-> <<98, 108>>,lineno |-> 1,switched |-> FALSE,files |-> <<<<>>, <<97>>>>,eaten |-> 0,fresh |-> FALSE,eof |-> TRUE,yyin |-> 1,bol |-> FALSE,cands |-> <<>>,bol0 |-> TRUE]),
    ([fid |-> 1,rs |-> 12,cur |-> 1,inited |-> TRUE,pfx |-> <<>>,saved |-> <<>>,caps |-> (0 :> 0 @@ 1 :> 16384 @@ 2 :> 0 @@ 3 :> 0 @@ 4 :> 0 @@ 5 :> 0 @@ 6 :> 0 @@ 7 :> 0 @@ 8 :> 0 @@ 9 :> 0 @@ 10 :> 0 @@ 11 :> 0 @@ 12 :> 0 @@ 13 :> 0 @@ 14 :> 0 @@ 15 :> 0 @@ 16 :> 0 @@ 17 :> 0 @@ 18 :> 0 @@ 19 :> 0 @@ 20 :> 0 @@ 21 :> 0 @@ 22 :> 0 @@ 23 :> 0 @@ 24 :> 0 @@ 25 :> 0 @@ 26 :> 0 @@ 27 :> 0 @@ 28 :> 0 @@ 29 :> 0 @@ 30 :> 0 @@ 31 :> 0 @@ 32 :> 0 @@ 33 :> 0 @@ 34 :> 0 @@ 35 :> 0 @@ 36 :> 0 @@ 37 :> 0 @@ 38 :> 0 @@ 39 :> 0 @@ 40 :> 0 @@ 41 :> 0 @@ 42 :> 0 @@ 43 :> 0 @@ 44 :> 0 @@ 45 :> 0 @@ 46 :> 0 @@ 47 :> 0 @@ 48 :> 0 @@ 49 :> 0 @@ 50 :> 0 @@ 51 :> 0 @@ 52 :> 0 @@ 53 :> 0 @@ 54 :> 0 @@ 55 :> 0 @@ 56 :> 0 @@ 57 :> 0 @@ 58 :> 0 @@ 59 :> 0 @@ 60 :> 0 @@ 61 :> 0 @@ 62 :> 0 @@ 63 :> 0 @@ 64 :> 0),sc |-> 0,hist |-> <<<<"tok", 5, <<98, 108>>>>>>,text |-> <<98, 108>>,wfrom |-> "scan",line0 |-> 1,phase |-> "wrap",rfault |-> 0,bstack |-> <<1>>,more |-> FALSE,stk |-> <<0>>,l |-> 10,buf |-> <<>>,opt |-> [reentrant |-> FALSE, bolneeded |-> FALSE, interactive |-> FALSE, array |-> FALSE, lno |-> TRUE, rejectmode |-> FALSE, bufsize |-> 0, strictread |-> FALSE, userwrap |-> TRUE, failalloc |-> 0, stdio |-> FALSE, yylmax |-> 8192],buf0 |-> <<98, 108>>,lineno |-> 1,switched |-> FALSE,files |-> <<<<>>, <<97>>>>,eaten |-> 0,fresh |-> TRUE,eof |-> FALSE,yyin |-> 1,bol |-> TRUE,cands |-> <<>>,bol0 |-> TRUE]),
    ([fid |-> 1,rs |-> 12,cur |-> 1,inited |-> TRUE,pfx |-> <<>>,saved |-> (2 :> [lineno |-> 1, bol |-> TRUE, buf |-> <<>>, fid |-> 2, fresh |-> TRUE, eof |-> FALSE]),caps |-> (0 :> 0 @@ 1 :> 16384 @@ 2 :> 0 @@ 3 :> 0 @@ 4 :> 0 @@ 5 :> 0 @@ 6 :> 0 @@ 7 :> 0 @@ 8 :> 0 @@ 9 :> 0 @@ 10 :> 0 @@ 11 :> 0 @@ 12 :> 0 @@ 13 :> 0 @@ 14 :> 0 @@ 15 :> 0 @@ 16 :> 0 @@ 17 :> 0 @@ 18 :> 0 @@ 19 :> 0 @@ 20 :> 0 @@ 21 :> 0 @@ 22 :> 0 @@ 23 :> 0 @@ 24 :> 0 @@ 25 :> 0 @@ 26 :> 0 @@ 27 :> 0 @@ 28 :> 0 @@ 29 :> 0 @@ 30 :> 0 @@ 31 :> 0 @@ 32 :> 0 @@ 33 :> 0 @@ 34 :> 0 @@ 35 :> 0 @@ 36 :> 0 @@ 37 :> 0 @@ 38 :> 0 @@ 39 :> 0 @@ 40 :> 0 @@ 41 :> 0 @@ 42 :> 0 @@ 43 :> 0 @@ 44 :> 0 @@ 45 :> 0 @@ 46 :> 0 @@ 47 :> 0 @@ 48 :> 0 @@ 49 :> 0 @@ 50 :> 0 @@ 51 :> 0 @@ 52 :> 0 @@ 53 :> 0 @@ 54 :> 0 @@ 55 :> 0 @@ 56 :> 0 @@ 57 :> 0 @@ 58 :> 0 @@ 59 :> 0 @@ 60 :> 0 @@ 61 :> 0 @@ 62 :> 0 @@ 63 :> 0 @@ 64 :> 0),sc |-> 0,hist |-> <<<<"tok", 5, <<98, 108>>>>>>,text |-> <<98, 108>>,wfrom |-> "scan",line0 |-> 1,phase |-> "wrap",rfault |-> 0,bstack |-> <<1>>,more |-> FALSE,stk |-> <<0>>,l |-> 11,buf |-> <<>>,opt |-> [reentrant |-> FALSE, bolneeded |-> FALSE, interactive |-> FALSE, array |-> FALSE, lno |-> TRUE, rejectmode |-> FALSE, bufsize |-> 0, strictread |-> FALSE, userwrap |-> TRUE, failalloc |-> 0, stdio |-> FALSE, yylmax |-> 8192],buf0 |-> <<98, 108>>,lineno |-> 1,switched |-> FALSE,files |-> <<<<>>, <<97>>>>,eaten |-> 0,fresh |-> TRUE,eof |-> FALSE,yyin |-> 1,bol |-> TRUE,cands |-> <<>>,bol0 |-> TRUE]),
    ([fid |-> 2,rs |-> 12,cur |-> 2,inited |-> TRUE,pfx |-> <<>>,saved |-> <<[lineno |-> 1, bol |-> TRUE, buf |-> <<>>, fid |-> 1, fresh |-> TRUE, eof |-> FALSE]>>,caps |-> (0 :> 0 @@ 1 :> 16384 @@ 2 :> 0 @@ 3 :> 0 @@ 4 :> 0 @@ 5 :> 0 @@ 6 :> 0 @@ 7 :> 0 @@ 8 :> 0 @@ 9 :> 0 @@ 10 :> 0 @@ 11 :> 0 @@ 12 :> 0 @@ 13 :> 0 @@ 14 :> 0 @@ 15 :> 0 @@ 16 :> 0 @@ 17 :> 0 @@ 18 :> 0 @@ 19 :> 0 @@ 20 :> 0 @@ 21 :> 0 @@ 22 :> 0 @@ 23 :> 0 @@ 24 :> 0 @@ 25 :> 0 @@ 26 :> 0 @@ 27 :> 0 @@ 28 :> 0 @@ 29 :> 0 @@ 30 :> 0 @@ 31 :> 0 @@ 32 :> 0 @@ 33 :> 0 @@ 34 :> 0 @@ 35 :> 0 @@ 36 :> 0 @@ 37 :> 0 @@ 38 :> 0 @@ 39 :> 0 @@ 40 :> 0 @@ 41 :> 0 @@ 42 :> 0 @@ 43 :> 0 @@ 44 :> 0 @@ 45 :> 0 @@ 46 :> 0 @@ 47 :> 0 @@ 48 :> 0 @@ 49 :> 0 @@ 50 :> 0 @@ 51 :> 0 @@ 52 :> 0 @@ 53 :> 0 @@ 54 :> 0 @@ 55 :> 0 @@ 56 :> 0 @@ 57 :> 0 @@ 58 :> 0 @@ 59 :> 0 @@ 60 :> 0 @@ 61 :> 0 @@ 62 :> 0 @@ 63 :> 0 @@ 64 :> 0),sc |-> 0,hist |-> <<<<"tok", 5, <<98, 108>>>>>>,text |-> <<98, 108>>,wfrom |-> "scan",line0 |-> 1,phase |-> "wrap",rfault |-> 0,bstack |-> <<2>>,more |-> FALSE,stk |-> <<0>>,l |-> 12,buf |-> <<>>,opt |-> [reentrant |-> FALSE, bolneeded |-> FALSE, interactive |-> FALSE, array |-> FALSE, lno |-> TRUE, rejectmode |-> FALSE, bufsize |-> 0, strictread |-> FALSE, userwrap |-> TRUE, failalloc |-> 0, stdio |-> FALSE, yylmax |-> 8192],buf0 |-> <<98, 108>>,lineno |-> 1,switched |-> TRUE,files |-> <<<<>>, <<97>>>>,eaten |-> 0,fresh |-> TRUE,eof |-> FALSE,yyin |-> 2,bol |-> TRUE,cands |-> <<>>,bol0 |-> TRUE]),
    ([fid |-> 2,rs |-> 12,cur |-> 2,inited |-> TRUE,pfx |-> <<>>,saved |-> <<[lineno |-> 1, bol |-> TRUE, buf |-> <<>>, fid |-> 1, fresh |-> TRUE, eof |-> FALSE]>>,caps |-> (0 :> 0 @@ 1 :> 16384 @@ 2 :> 0 @@ 3 :> 0 @@ 4 :> 0 @@ 5 :> 0 @@ 6 :> 0 @@ 7 :> 0 @@ 8 :> 0 @@ 9 :> 0 @@ 10 :> 0 @@ 11 :> 0 @@ 12 :> 0 @@ 13 :> 0 @@ 14 :> 0 @@ 15 :> 0 @@ 16 :> 0 @@ 17 :> 0 @@ 18 :> 0 @@ 19 :> 0 @@ 20 :> 0 @@ 21 :> 0 @@ 22 :> 0 @@ 23 :> 0 @@ 24 :> 0 @@ 25 :> 0 @@ 26 :> 0 @@ 27 :> 0 @@ 28 :> 0 @@ 29 :> 0 @@ 30 :> 0 @@ 31 :> 0 @@ 32 :> 0 @@ 33 :> 0 @@ 34 :> 0 @@ 35 :> 0 @@ 36 :> 0 @@ 37 :> 0 @@ 38 :> 0 @@ 39 :> 0 @@ 40 :> 0 @@ 41 :> 0 @@ 42 :> 0 @@ 43 :> 0 @@ 44 :> 0 @@ 45 :> 0 @@ 46 :> 0 @@ 47 :> 0 @@ 48 :> 0 @@ 49 :> 0 @@ 50 :> 0 @@ 51 :> 0 @@ 52 :> 0 @@ 53 :> 0 @@ 54 :> 0 @@ 55 :> 0 @@ 56 :> 0 @@ 57 :> 0 @@ 58 :> 0 @@ 59 :> 0 @@ 60 :> 0 @@ 61 :> 0 @@ 62 :> 0 @@ 63 :> 0 @@ 64 :> 0),sc |-> 0,hist |-> <<<<"tok", 5, <<98, 108>>>>>>,text |-> <<98, 108>>,wfrom |-> "scan",line0 |-> 1,phase |-> "scan",rfault |-> 0,bstack |-> <<2>>,more |-> FALSE,stk |-> <<0>>,l |-> 13,buf |-> <<>>,opt |-> [reentrant |-> FALSE, bolneeded |-> FALSE, interactive |-> FALSE, array |-> FALSE, lno |-> TRUE, rejectmode |-> FALSE, bufsize |-> 0, strictread |-> FALSE, userwrap |-> TRUE, failalloc |-> 0, stdio |-> FALSE, yylmax |-> 8192],buf0 |-> <<98, 108>>,lineno |-> 1,switched |-> TRUE,files |-> <<<<>>, <<97>>>>,eaten |-> 0,fresh |-> TRUE,eof |-> FALSE,yyin |-> 2,bol |-> TRUE,cands |-> <<>>,bol0 |-> TRUE]),
    ([fid |-> 2,rs |-> 12,cur |-> 2,inited |-> TRUE,pfx |-> <<>>,saved |-> <<[lineno |-> 1, bol |-> TRUE, buf |-> <<>>, fid |-> 1, fresh |-> TRUE, eof |-> FALSE]>>,caps |-> (0 :> 0 @@ 1 :> 16384 @@ 2 :> 16384 @@ 3 :> 0 @@ 4 :> 0 @@ 5 :> 0 @@ 6 :> 0 @@ 7 :> 0 @@ 8 :> 0 @@ 9 :> 0 @@ 10 :> 0 @@ 11 :> 0 @@ 12 :> 0 @@ 13 :> 0 @@ 14 :> 0 @@ 15 :> 0 @@ 16 :> 0 @@ 17 :> 0 @@ 18 :> 0 @@ 19 :> 0 @@ 20 :> 0 @@ 21 :> 0 @@ 22 :> 0 @@ 23 :> 0 @@ 24 :> 0 @@ 25 :> 0 @@ 26 :> 0 @@ 27 :> 0 @@ 28 :> 0 @@ 29 :> 0 @@ 30 :> 0 @@ 31 :> 0 @@ 32 :> 0 @@ 33 :> 0 @@ 34 :> 0 @@ 35 :> 0 @@ 36 :> 0 @@ 37 :> 0 @@ 38 :> 0 @@ 39 :> 0 @@ 40 :> 0 @@ 41 :> 0 @@ 42 :> 0 @@ 43 :> 0 @@ 44 :> 0 @@ 45 :> 0 @@ 46 :> 0 @@ 47 :> 0 @@ 48 :> 0 @@ 49 :> 0 @@ 50 :> 0 @@ 51 :> 0 @@ 52 :> 0 @@ 53 :> 0 @@ 54 :> 0 @@ 55 :> 0 @@ 56 :> 0 @@ 57 :> 0 @@ 58 :> 0 @@ 59 :> 0 @@ 60 :> 0 @@ 61 :> 0 @@ 62 :> 0 @@ 63 :> 0 @@ 64 :> 0),sc |-> 0,hist |-> <<<<"tok", 5, <<98, 108>>>>>>,text |-> <<98, 108>>,wfrom |-> "scan",line0 |-> 1,phase |-> "scan",rfault |-> 0,bstack |-> <<2>>,more |-> FALSE,stk |-> <<0>>,l |-> 14,buf |-> <<97>>,opt |-> [reentrant |-> FALSE, bolneeded |-> FALSE, interactive |-> FALSE, array |-> FALSE, lno |-> TRUE, rejectmode |-> FALSE, bufsize |-> 0, strictread |-> FALSE, userwrap |-> TRUE, failalloc |-> 0, stdio |-> FALSE, yylmax |-> 8192],buf0 |-> <<98, 108>>,lineno |-> 1,switched |-> TRUE,files |-> <<<<>>, <<>>>>,eaten |-> 0,fresh |-> FALSE,eof |-> FALSE,yyin |-> 2,bol |-> TRUE,cands |-> <<>>,bol0 |-> TRUE]),
    ([fid |-> 2,rs |-> 12,cur |-> 2,inited |-> TRUE,pfx |-> <<>>,saved |-> <<[lineno |-> 1, bol |-> TRUE, buf |-> <<>>, fid |-> 1, fresh |-> TRUE, eof |-> FALSE]>>,caps |-> (0 :> 0 @@ 1 :> 16384 @@ 2 :> 16384 @@ 3 :> 0 @@ 4 :> 0 @@ 5 :> 0 @@ 6 :> 0 @@ 7 :> 0 @@ 8 :> 0 @@ 9 :> 0 @@ 10 :> 0 @@ 11 :> 0 @@ 12 :> 0 @@ 13 :> 0 @@ 14 :> 0 @@ 15 :> 0 @@ 16 :> 0 @@ 17 :> 0 @@ 18 :> 0 @@ 19 :> 0 @@ 20 :> 0 @@ 21 :> 0 @@ 22 :> 0 @@ 23 :> 0 @@ 24 :> 0 @@ 25 :> 0 @@ 26 :> 0 @@ 27 :> 0 @@ 28 :> 0 @@ 29 :> 0 @@ 30 :> 0 @@ 31 :> 0 @@ 32 :> 0 @@ 33 :> 0 @@ 34 :> 0 @@ 35 :> 0 @@ 36 :> 0 @@ 37 :> 0 @@ 38 :> 0 @@ 39 :> 0 @@ 40 :> 0 @@ 41 :> 0 @@ 42 :> 0 @@ 43 :> 0 @@ 44 :> 0 @@ 45 :> 0 @@ 46 :> 0 @@ 47 :> 0 @@ 48 :> 0 @@ 49 :> 0 @@ 50 :> 0 @@ 51 :> 0 @@ 52 :> 0 @@ 53 :> 0 @@ 54 :> 0 @@ 55 :> 0 @@ 56 :> 0 @@ 57 :> 0 @@ 58 :> 0 @@ 59 :> 0 @@ 60 :> 0 @@ 61 :> 0 @@ 62 :> 0 @@ 63 :> 0 @@ 64 :> 0),sc |-> 0,hist |-> <<<<"tok", 5, <<98, 108>>>>>>,text |-> <<98, 108>>,wfrom |-> "scan",line0 |-> 1,phase |-> "scan",rfault |-> 0,bstack |-> <<2>>,more |-> FALSE,stk |-> <<0>>,l |-> 15,buf |-> <<97>>,opt |-> [reentrant |-> FALSE, bolneeded |-> FALSE, interactive |-> FALSE, array |-> FALSE, lno |-> TRUE, rejectmode |-> FALSE, bufsize |-> 0, strictread |-> FALSE, userwrap |-> TRUE, failalloc |-> 0, stdio |-> FALSE, yylmax |-> 8192],buf0 |-> <<98, 108>>,lineno |-> 1,switched |-> TRUE,files |-> <<<<>>, <<>>>>,eaten |-> 0,fresh |-> FALSE,eof |-> TRUE,yyin |-> 2,bol |-> TRUE,cands |-> <<>>,bol0 |-> TRUE]),
    ([fid |-> 2,rs |-> 12,cur |-> 2,inited |-> TRUE,pfx |-> <<>>,saved |-> <<[lineno |-> 1, bol |-> TRUE, buf |-> <<>>, fid |-> 1, fresh |-> TRUE, eof |-> FALSE]>>,caps |-> (0 :> 0 @@ 1 :> 16384 @@ 2 :> 16384 @@ 3 :> 0 @@ 4 :> 0 @@ 5 :> 0 @@ 6 :> 0 @@ 7 :> 0 @@ 8 :> 0 @@ 9 :> 0 @@ 10 :> 0 @@ 11 :> 0 @@ 12 :> 0 @@ 13 :> 0 @@ 14 :> 0 @@ 15 :> 0 @@ 16 :> 0 @@ 17 :> 0 @@ 18 :> 0 @@ 19 :> 0 @@ 20 :> 0 @@ 21 :> 0 @@ 22 :> 0 @@ 23 :> 0 @@ 24 :> 0 @@ 25 :> 0 @@ 26 :> 0 @@ 27 :> 0 @@ 28 :> 0 @@ 29 :> 0 @@ 30 :> 0 @@ 31 :> 0 @@ 32 :> 0 @@ 33 :> 0 @@ 34 :> 0 @@ 35 :> 0 @@ 36 :> 0 @@ 37 :> 0 @@ 38 :> 0 @@ 39 :> 0 @@ 40 :> 0 @@ 41 :> 0 @@ 42 :> 0 @@ 43 :> 0 @@ 44 :> 0 @@ 45 :> 0 @@ 46 :> 0 @@ 47 :> 0 @@ 48 :> 0 @@ 49 :> 0 @@ 50 :> 0 @@ 51 :> 0 @@ 52 :> 0 @@ 53 :> 0 @@ 54 :> 0 @@ 55 :> 0 @@ 56 :> 0 @@ 57 :> 0 @@ 58 :> 0 @@ 59 :> 0 @@ 60 :> 0 @@ 61 :> 0 @@ 62 :> 0 @@ 63 :> 0 @@ 64 :> 0),sc |-> 0,hist |-> <<<<"tok", 5, <<98, 108>>>>, <<"tok", 5, <<97>>>>>>,text |-> <<97>>,wfrom |-> "scan",line0 |-> 1,phase |-> "act",rfault |-> 0,bstack |-> <<2>>,more |-> FALSE,stk |-> <<0>>,l |-> 16,buf |-> <<>>,opt |-> [reentrant |-> FALSE, bolneeded |-> FALSE, interactive |-> FALSE, array |-> FALSE, lno |-> TRUE, rejectmode |-> FALSE, bufsize |-> 0, strictread |-> FALSE, userwrap |-> TRUE, failalloc |-> 0, stdio |-> FALSE, yylmax |-> 8192],buf0 |-> <<97>>,lineno |-> 1,switched |-> TRUE,files |-> <<<<>>, <<>>>>,eaten |-> 0,fresh |-> FALSE,eof |-> TRUE,yyin |-> 2,bol |-> FALSE,cands |-> <<<<7, 1>>>>,bol0 |-> TRUE]),
    ([fid |-> 2,rs |-> 12,cur |-> 2,inited |-> TRUE,pfx |-> <<>>,saved |-> <<[lineno |-> 1, bol |-> TRUE, buf |-> <<>>, fid |-> 1, fresh |-> TRUE, eof |-> FALSE]>>,caps |-> (0 :> 0 @@ 1 :> 16384 @@ 2 :> 16384 @@ 3 :> 0 @@ 4 :> 0 @@ 5 :> 0 @@ 6 :> 0 @@ 7 :> 0 @@ 8 :> 0 @@ 9 :> 0 @@ 10 :> 0 @@ 11 :> 0 @@ 12 :> 0 @@ 13 :> 0 @@ 14 :> 0 @@ 15 :> 0 @@ 16 :> 0 @@ 17 :> 0 @@ 18 :> 0 @@ 19 :> 0 @@ 20 :> 0 @@ 21 :> 0 @@ 22 :> 0 @@ 23 :> 0 @@ 24 :> 0 @@ 25 :> 0 @@ 26 :> 0 @@ 27 :> 0 @@ 28 :> 0 @@ 29 :> 0 @@ 30 :> 0 @@ 31 :> 0 @@ 32 :> 0 @@ 33 :> 0 @@ 34 :> 0 @@ 35 :> 0 @@ 36 :> 0 @@ 37 :> 0 @@ 38 :> 0 @@ 39 :> 0 @@ 40 :> 0 @@ 41 :> 0 @@ 42 :> 0 @@ 43 :> 0 @@ 44 :> 0 @@ 45 :> 0 @@ 46 :> 0 @@ 47 :> 0 @@ 48 :> 0 @@ 49 :> 0 @@ 50 :> 0 @@ 51 :> 0 @@ 52 :> 0 @@ 53 :> 0 @@ 54 :> 0 @@ 55 :> 0 @@ 56 :> 0 @@ 57 :> 0 @@ 58 :> 0 @@ 59 :> 0 @@ 60 :> 0 @@ 61 :> 0 @@ 62 :> 0 @@ 63 :> 0 @@ 64 :> 0),sc |-> 0,hist |-> <<<<"tok", 5, <<98, 108>>>>, <<"tok", 5, <<97>>>>>>,text |-> <<97>>,wfrom |-> "scan",line0 |-> 1,phase |-> "scan",rfault |-> 0,bstack |-> <<2>>,more |-> FALSE,stk |-> <<0>>,l |-> 17,buf |-> <<>>,opt |-> [reentrant |-> FALSE, bolneeded |-> FALSE, interactive |-> FALSE, array |-> FALSE, lno |-> TRUE, rejectmode |-> FALSE, bufsize |-> 0, strictread |-> FALSE, userwrap |-> TRUE, failalloc |-> 0, stdio |-> FALSE, yylmax |-> 8192],buf0 |-> <<97>>,lineno |-> 1,switched |-> TRUE,files |-> <<<<>>, <<>>>>,eaten |-> 0,fresh |-> FALSE,eof |-> TRUE,yyin |-> 2,bol |-> FALSE,cands |-> <<>>,bol0 |-> TRUE]),
    ([fid |-> 2,rs |-> 12,cur |-> 2,inited |-> TRUE,pfx |-> <<>>,saved |-> <<[lineno |-> 1, bol |-> TRUE, buf |-> <<>>, fid |-> 1, fresh |-> TRUE, eof |-> FALSE]>>,caps |-> (0 :> 0 @@ 1 :> 16384 @@ 2 :> 16384 @@ 3 :> 0 @@ 4 :> 0 @@ 5 :> 0 @@ 6 :> 0 @@ 7 :> 0 @@ 8 :> 0 @@ 9 :> 0 @@ 10 :> 0 @@ 11 :> 0 @@ 12 :> 0 @@ 13 :> 0 @@ 14 :> 0 @@ 15 :> 0 @@ 16 :> 0 @@ 17 :> 0 @@ 18 :> 0 @@ 19 :> 0 @@ 20 :> 0 @@ 21 :> 0 @@ 22 :> 0 @@ 23 :> 0 @@ 24 :> 0 @@ 25 :> 0 @@ 26 :> 0 @@ 27 :> 0 @@ 28 :> 0 @@ 29 :> 0 @@ 30 :> 0 @@ 31 :> 0 @@ 32 :> 0 @@ 33 :> 0 @@ 34 :> 0 @@ 35 :> 0 @@ 36 :> 0 @@ 37 :> 0 @@ 38 :> 0 @@ 39 :> 0 @@ 40 :> 0 @@ 41 :> 0 @@ 42 :> 0 @@ 43 :> 0 @@ 44 :> 0 @@ 45 :> 0 @@ 46 :> 0 @@ 47 :> 0 @@ 48 :> 0 @@ 49 :> 0 @@ 50 :> 0 @@ 51 :> 0 @@ 52 :> 0 @@ 53 :> 0 @@ 54 :> 0 @@ 55 :> 0 @@ 56 :> 0 @@ 57 :> 0 @@ 58 :> 0 @@ 59 :> 0 @@ 60 :> 0 @@ 61 :> 0 @@ 62 :> 0 @@ 63 :> 0 @@ 64 :> 0),sc |-> 0,hist |-> <<<<"tok", 5, <<98, 108>>>>, <<"tok", 5, <<97>>>>>>,text |-> <<97>>,wfrom |-> "scan",line0 |-> 1,phase |-> "wrap",rfault |-> 0,bstack |-> <<2>>,more |-> FALSE,stk |-> <<0>>,l |-> 18,buf |-> <<>>,opt |-> [reentrant |-> FALSE, bolneeded |-> FALSE, interactive |-> FALSE, array |-> FALSE, lno |-> TRUE, rejectmode |-> FALSE, bufsize |-> 0, strictread |-> FALSE, userwrap |-> TRUE, failalloc |-> 0, stdio |-> FALSE, yylmax |-> 8192],buf0 |-> <<97>>,lineno |-> 1,switched |-> FALSE,files |-> <<<<>>, <<>>>>,eaten |-> 0,fresh |-> TRUE,eof |-> FALSE,yyin |-> 2,bol |-> TRUE,cands |-> <<>>,bol0 |-> TRUE]),
    ([fid |-> 2,rs |-> 12,cur |-> 2,inited |-> TRUE,pfx |-> <<>>,saved |-> <<[lineno |-> 1, bol |-> TRUE, buf |-> <<>>, fid |-> 1, fresh |-> TRUE, eof |-> FALSE]>>,caps |-> (0 :> 0 @@ 1 :> 16384 @@ 2 :> 16384 @@ 3 :> 0 @@ 4 :> 0 @@ 5 :> 0 @@ 6 :> 0 @@ 7 :> 0 @@ 8 :> 0 @@ 9 :> 0 @@ 10 :> 0 @@ 11 :> 0 @@ 12 :> 0 @@ 13 :> 0 @@ 14 :> 0 @@ 15 :> 0 @@ 16 :> 0 @@ 17 :> 0 @@ 18 :> 0 @@ 19 :> 0 @@ 20 :> 0 @@ 21 :> 0 @@ 22 :> 0 @@ 23 :> 0 @@ 24 :> 0 @@ 25 :> 0 @@ 26 :> 0 @@ 27 :> 0 @@ 28 :> 0 @@ 29 :> 0 @@ 30 :> 0 @@ 31 :> 0 @@ 32 :> 0 @@ 33 :> 0 @@ 34 :> 0 @@ 35 :> 0 @@ 36 :> 0 @@ 37 :> 0 @@ 38 :> 0 @@ 39 :> 0 @@ 40 :> 0 @@ 41 :> 0 @@ 42 :> 0 @@ 43 :> 0 @@ 44 :> 0 @@ 45 :> 0 @@ 46 :> 0 @@ 47 :> 0 @@ 48 :> 0 @@ 49 :> 0 @@ 50 :> 0 @@ 51 :> 0 @@ 52 :> 0 @@ 53 :> 0 @@ 54 :> 0 @@ 55 :> 0 @@ 56 :> 0 @@ 57 :> 0 @@ 58 :> 0 @@ 59 :> 0 @@ 60 :> 0 @@ 61 :> 0 @@ 62 :> 0 @@ 63 :> 0 @@ 64 :> 0),sc |-> 0,hist |-> <<<<"tok", 5, <<98, 108>>>>, <<"tok", 5, <<97>>>>>>,text |-> <<97>>,wfrom |-> "scan",line0 |-> 1,phase |-> "eofact",rfault |-> 0,bstack |-> <<2>>,more |-> FALSE,stk |-> <<0>>,l |-> 19,buf |-> <<>>,opt |-> [reentrant |-> FALSE, bolneeded |-> FALSE, interactive |-> FALSE, array |-> FALSE, lno |-> TRUE, rejectmode |-> FALSE, bufsize |-> 0, strictread |-> FALSE, userwrap |-> TRUE, failalloc |-> 0, stdio |-> FALSE, yylmax |-> 8192],buf0 |-> <<97>>,lineno |-> 1,switched |-> FALSE,files |-> <<<<>>, <<>>>>,eaten |-> 0,fresh |-> TRUE,eof |-> FALSE,yyin |-> 2,bol |-> TRUE,cands |-> <<>>,bol0 |-> TRUE]),
    ([fid |-> 2,rs |-> 12,cur |-> 2,inited |-> TRUE,pfx |-> <<>>,saved |-> <<[lineno |-> 1, bol |-> TRUE, buf |-> <<>>, fid |-> 1, fresh |-> TRUE, eof |-> FALSE]>>,caps |-> (0 :> 0 @@ 1 :> 16384 @@ 2 :> 16384 @@ 3 :> 0 @@ 4 :> 0 @@ 5 :> 0 @@ 6 :> 0 @@ 7 :> 0 @@ 8 :> 0 @@ 9 :> 0 @@ 10 :> 0 @@ 11 :> 0 @@ 12 :> 0 @@ 13 :> 0 @@ 14 :> 0 @@ 15 :> 0 @@ 16 :> 0 @@ 17 :> 0 @@ 18 :> 0 @@ 19 :> 0 @@ 20 :> 0 @@ 21 :> 0 @@ 22 :> 0 @@ 23 :> 0 @@ 24 :> 0 @@ 25 :> 0 @@ 26 :> 0 @@ 27 :> 0 @@ 28 :> 0 @@ 29 :> 0 @@ 30 :> 0 @@ 31 :> 0 @@ 32 :> 0 @@ 33 :> 0 @@ 34 :> 0 @@ 35 :> 0 @@ 36 :> 0 @@ 37 :> 0 @@ 38 :> 0 @@ 39 :> 0 @@ 40 :> 0 @@ 41 :> 0 @@ 42 :> 0 @@ 43 :> 0 @@ 44 :> 0 @@ 45 :> 0 @@ 46 :> 0 @@ 47 :> 0 @@ 48 :> 0 @@ 49 :> 0 @@ 50 :> 0 @@ 51 :> 0 @@ 52 :> 0 @@ 53 :> 0 @@ 54 :> 0 @@ 55 :> 0 @@ 56 :> 0 @@ 57 :> 0 @@ 58 :> 0 @@ 59 :> 0 @@ 60 :> 0 @@ 61 :> 0 @@ 62 :> 0 @@ 63 :> 0 @@ 64 :> 0),sc |-> 0,hist |-> <<<<"tok", 5, <<98, 108>>>>, <<"tok", 5, <<97>>>>>>,text |-> <<97>>,wfrom |-> "scan",line0 |-> 1,phase |-> "done",rfault |-> 0,bstack |-> <<2>>,more |-> FALSE,stk |-> <<0>>,l |-> 20,buf |-> <<>>,opt |-> [reentrant |-> FALSE, bolneeded |-> FALSE, interactive |-> FALSE, array |-> FALSE, lno |-> TRUE, rejectmode |-> FALSE, bufsize |-> 0, strictread |-> FALSE, userwrap |-> TRUE, failalloc |-> 0, stdio |-> FALSE, yylmax |-> 8192],buf0 |-> <<97>>,lineno |-> 1,switched |-> FALSE,files |-> <<<<>>, <<>>>>,eaten |-> 0,fresh |-> TRUE,eof |-> FALSE,yyin |-> 2,bol |-> TRUE,cands |-> <<>>,bol0 |-> TRUE]),
    ([fid |-> 2,rs |-> 12,cur |-> 2,inited |-> TRUE,pfx |-> <<>>,saved |-> <<[lineno |-> 1, bol |-> TRUE, buf |-> <<>>, fid |-> 1, fresh |-> TRUE, eof |-> FALSE]>>,caps |-> (0 :> 0 @@ 1 :> 16384 @@ 2 :> 16384 @@ 3 :> 0 @@ 4 :> 0 @@ 5 :> 0 @@ 6 :> 0 @@ 7 :> 0 @@ 8 :> 0 @@ 9 :> 0 @@ 10 :> 0 @@ 11 :> 0 @@ 12 :> 0 @@ 13 :> 0 @@ 14 :> 0 @@ 15 :> 0 @@ 16 :> 0 @@ 17 :> 0 @@ 18 :> 0 @@ 19 :> 0 @@ 20 :> 0 @@ 21 :> 0 @@ 22 :> 0 @@ 23 :> 0 @@ 24 :> 0 @@ 25 :> 0 @@ 26 :> 0 @@ 27 :> 0 @@ 28 :> 0 @@ 29 :> 0 @@ 30 :> 0 @@ 31 :> 0 @@ 32 :> 0 @@ 33 :> 0 @@ 34 :> 0 @@ 35 :> 0 @@ 36 :> 0 @@ 37 :> 0 @@ 38 :> 0 @@ 39 :> 0 @@ 40 :> 0 @@ 41 :> 0 @@ 42 :> 0 @@ 43 :> 0 @@ 44 :> 0 @@ 45 :> 0 @@ 46 :> 0 @@ 47 :> 0 @@ 48 :> 0 @@ 49 :> 0 @@ 50 :> 0 @@ 51 :> 0 @@ 52 :> 0 @@ 53 :> 0 @@ 54 :> 0 @@ 55 :> 0 @@ 56 :> 0 @@ 57 :> 0 @@ 58 :> 0 @@ 59 :> 0 @@ 60 :> 0 @@ 61 :> 0 @@ 62 :> 0 @@ 63 :> 0 @@ 64 :> 0),sc |-> 0,hist |-> <<<<"tok", 5, <<98, 108>>>>, <<"tok", 5, <<97>>>>>>,text |-> <<97>>,wfrom |-> "scan",line0 |-> 1,phase |-> "scan",rfault |-> 0,bstack |-> <<2>>,more |-> FALSE,stk |-> <<0>>,l |-> 21,buf |-> <<>>,opt |-> [reentrant |-> FALSE, bolneeded |-> FALSE, interactive |-> FALSE, array |-> FALSE, lno |-> TRUE, rejectmode |-> FALSE, bufsize |-> 0, strictread |-> FALSE, userwrap |-> TRUE, failalloc |-> 0, stdio |-> FALSE, yylmax |-> 8192],buf0 |-> <<97>>,lineno |-> 1,switched |-> FALSE,files |-> <<<<>>, <<>>>>,eaten |-> 0,fresh |-> TRUE,eof |-> FALSE,yyin |-> 2,bol |-> TRUE,cands |-> <<>>,bol0 |-> TRUE]),
    ([fid |-> 2,rs |-> 12,cur |-> 2,inited |-> TRUE,pfx |-> <<>>,saved |-> <<[lineno |-> 1, bol |-> TRUE, buf |-> <<>>, fid |-> 1, fresh |-> TRUE, eof |-> FALSE]>>,caps |-> (0 :> 0 @@ 1 :> 16384 @@ 2 :> 16384 @@ 3 :> 0 @@ 4 :> 0 @@ 5 :> 0 @@ 6 :> 0 @@ 7 :> 0 @@ 8 :> 0 @@ 9 :> 0 @@ 10 :> 0 @@ 11 :> 0 @@ 12 :> 0 @@ 13 :> 0 @@ 14 :> 0 @@ 15 :> 0 @@ 16 :> 0 @@ 17 :> 0 @@ 18 :> 0 @@ 19 :> 0 @@ 20 :> 0 @@ 21 :> 0 @@ 22 :> 0 @@ 23 :> 0 @@ 24 :> 0 @@ 25 :> 0 @@ 26 :> 0 @@ 27 :> 0 @@ 28 :> 0 @@ 29 :> 0 @@ 30 :> 0 @@ 31 :> 0 @@ 32 :> 0 @@ 33 :> 0 @@ 34 :> 0 @@ 35 :> 0 @@ 36 :> 0 @@ 37 :> 0 @@ 38 :> 0 @@ 39 :> 0 @@ 40 :> 0 @@ 41 :> 0 @@ 42 :> 0 @@ 43 :> 0 @@ 44 :> 0 @@ 45 :> 0 @@ 46 :> 0 @@ 47 :> 0 @@ 48 :> 0 @@ 49 :> 0 @@ 50 :> 0 @@ 51 :> 0 @@ 52 :> 0 @@ 53 :> 0 @@ 54 :> 0 @@ 55 :> 0 @@ 56 :> 0 @@ 57 :> 0 @@ 58 :> 0 @@ 59 :> 0 @@ 60 :> 0 @@ 61 :> 0 @@ 62 :> 0 @@ 63 :> 0 @@ 64 :> 0),sc |-> 0,hist |-> <<<<"tok", 5, <<98, 108>>>>, <<"tok", 5, <<97>>>>>>,text |-> <<97>>,wfrom |-> "scan",line0 |-> 1,phase |-> "scan",rfault |-> 0,bstack |-> <<2>>,more |-> FALSE,stk |-> <<0>>,l |-> 22,buf |-> <<>>,opt |-> [reentrant |-> FALSE, bolneeded |-> FALSE, interactive |-> FALSE, array |-> FALSE, lno |-> TRUE, rejectmode |-> FALSE, bufsize |-> 0, strictread |-> FALSE, userwrap |-> TRUE, failalloc |-> 0, stdio |-> FALSE, yylmax |-> 8192],buf0 |-> <<97>>,lineno |-> 1,switched |-> FALSE,files |-> <<<<>>, <<>>>>,eaten |-> 0,fresh |-> FALSE,eof |-> TRUE,yyin |-> 2,bol |-> TRUE,cands |-> <<>>,bol0 |-> TRUE]),
    ([fid |-> 2,rs |-> 12,cur |-> 2,inited |-> TRUE,pfx |-> <<>>,saved |-> <<[lineno |-> 1, bol |-> TRUE, buf |-> <<>>, fid |-> 1, fresh |-> TRUE, eof |-> FALSE]>>,caps |-> (0 :> 0 @@ 1 :> 16384 @@ 2 :> 16384 @@ 3 :> 0 @@ 4 :> 0 @@ 5 :> 0 @@ 6 :> 0 @@ 7 :> 0 @@ 8 :> 0 @@ 9 :> 0 @@ 10 :> 0 @@ 11 :> 0 @@ 12 :> 0 @@ 13 :> 0 @@ 14 :> 0 @@ 15 :> 0 @@ 16 :> 0 @@ 17 :> 0 @@ 18 :> 0 @@ 19 :> 0 @@ 20 :> 0 @@ 21 :> 0 @@ 22 :> 0 @@ 23 :> 0 @@ 24 :> 0 @@ 25 :> 0 @@ 26 :> 0 @@ 27 :> 0 @@ 28 :> 0 @@ 29 :> 0 @@ 30 :> 0 @@ 31 :> 0 @@ 32 :> 0 @@ 33 :> 0 @@ 34 :> 0 @@ 35 :> 0 @@ 36 :> 0 @@ 37 :> 0 @@ 38 :> 0 @@ 39 :> 0 @@ 40 :> 0 @@ 41 :> 0 @@ 42 :> 0 @@ 43 :> 0 @@ 44 :> 0 @@ 45 :> 0 @@ 46 :> 0 @@ 47 :> 0 @@ 48 :> 0 @@ 49 :> 0 @@ 50 :> 0 @@ 51 :> 0 @@ 52 :> 0 @@ 53 :> 0 @@ 54 :> 0 @@ 55 :> 0 @@ 56 :> 0 @@ 57 :> 0 @@ 58 :> 0 @@ 59 :> 0 @@ 60 :> 0 @@ 61 :> 0 @@ 62 :> 0 @@ 63 :> 0 @@ 64 :> 0),sc |-> 0,hist |-> <<<<"tok", 5, <<98, 108>>>>, <<"tok", 5, <<97>>>>>>,text |-> <<97>>,wfrom |-> "scan",line0 |-> 1,phase |-> "wrap",rfault |-> 0,bstack |-> <<2>>,more |-> FALSE,stk |-> <<0>>,l |-> 23,buf |-> <<>>,opt |-> [reentrant |-> FALSE, bolneeded |-> FALSE, interactive |-> FALSE, array |-> FALSE, lno |-> TRUE, rejectmode |-> FALSE, bufsize |-> 0, strictread |-> FALSE, userwrap |-> TRUE, failalloc |-> 0, stdio |-> FALSE, yylmax |-> 8192],buf0 |-> <<97>>,lineno |-> 1,switched |-> FALSE,files |-> <<<<>>, <<>>>>,eaten |-> 0,fresh |-> TRUE,eof |-> FALSE,yyin |-> 2,bol |-> TRUE,cands |-> <<>>,bol0 |-> TRUE]),
    ([fid |-> 0,rs |-> 12,cur |-> 0,inited |-> TRUE,pfx |-> <<>>,saved |-> <<[lineno |-> 1, bol |-> TRUE, buf |-> <<>>, fid |-> 1, fresh |-> TRUE, eof |-> FALSE]>>,caps |-> (0 :> 0 @@ 1 :> 16384 @@ 2 :> 16384 @@ 3 :> 0 @@ 4 :> 0 @@ 5 :> 0 @@ 6 :> 0 @@ 7 :> 0 @@ 8 :> 0 @@ 9 :> 0 @@ 10 :> 0 @@ 11 :> 0 @@ 12 :> 0 @@ 13 :> 0 @@ 14 :> 0 @@ 15 :> 0 @@ 16 :> 0 @@ 17 :> 0 @@ 18 :> 0 @@ 19 :> 0 @@ 20 :> 0 @@ 21 :> 0 @@ 22 :> 0 @@ 23 :> 0 @@ 24 :> 0 @@ 25 :> 0 @@ 26 :> 0 @@ 27 :> 0 @@ 28 :> 0 @@ 29 :> 0 @@ 30 :> 0 @@ 31 :> 0 @@ 32 :> 0 @@ 33 :> 0 @@ 34 :> 0 @@ 35 :> 0 @@ 36 :> 0 @@ 37 :> 0 @@ 38 :> 0 @@ 39 :> 0 @@ 40 :> 0 @@ 41 :> 0 @@ 42 :> 0 @@ 43 :> 0 @@ 44 :> 0 @@ 45 :> 0 @@ 46 :> 0 @@ 47 :> 0 @@ 48 :> 0 @@ 49 :> 0 @@ 50 :> 0 @@ 51 :> 0 @@ 52 :> 0 @@ 53 :> 0 @@ 54 :> 0 @@ 55 :> 0 @@ 56 :> 0 @@ 57 :> 0 @@ 58 :> 0 @@ 59 :> 0 @@ 60 :> 0 @@ 61 :> 0 @@ 62 :> 0 @@ 63 :> 0 @@ 64 :> 0),sc |-> 0,hist |-> <<<<"tok", 5, <<98, 108>>>>, <<"tok", 5, <<97>>>>>>,text |-> <<97>>,wfrom |-> "scan",line0 |-> 1,phase |-> "wrap",rfault |-> 0,bstack |-> <<>>,more |-> FALSE,stk |-> <<0>>,l |-> 24,buf |-> <<>>,opt |-> [reentrant |-> FALSE, bolneeded |-> FALSE, interactive |-> FALSE, array |-> FALSE, lno |-> TRUE, rejectmode |-> FALSE, bufsize |-> 0, strictread |-> FALSE, userwrap |-> TRUE, failalloc |-> 0, stdio |-> FALSE, yylmax |-> 8192],buf0 |-> <<97>>,lineno |-> 1,switched |-> FALSE,files |-> <<<<>>, <<>>>>,eaten |-> 0,fresh |-> FALSE,eof |-> FALSE,yyin |-> 2,bol |-> TRUE,cands |-> <<>>,bol0 |-> TRUE]),
    ([fid |-> 0,rs |-> 12,cur |-> 3,inited |-> TRUE,pfx |-> <<>>,saved |-> <<[lineno |-> 1, bol |-> TRUE, buf |-> <<>>, fid |-> 1, fresh |-> TRUE, eof |-> FALSE]>>,caps |-> (0 :> 0 @@ 1 :> 16384 @@ 2 :> 16384 @@ 3 :> 0 @@ 4 :> 0 @@ 5 :> 0 @@ 6 :> 0 @@ 7 :> 0 @@ 8 :> 0 @@ 9 :> 0 @@ 10 :> 0 @@ 11 :> 0 @@ 12 :> 0 @@ 13 :> 0 @@ 14 :> 0 @@ 15 :> 0 @@ 16 :> 0 @@ 17 :> 0 @@ 18 :> 0 @@ 19 :> 0 @@ 20 :> 0 @@ 21 :> 0 @@ 22 :> 0 @@ 23 :> 0 @@ 24 :> 0 @@ 25 :> 0 @@ 26 :> 0 @@ 27 :> 0 @@ 28 :> 0 @@ 29 :> 0 @@ 30 :> 0 @@ 31 :> 0 @@ 32 :> 0 @@ 33 :> 0 @@ 34 :> 0 @@ 35 :> 0 @@ 36 :> 0 @@ 37 :> 0 @@ 38 :> 0 @@ 39 :> 0 @@ 40 :> 0 @@ 41 :> 0 @@ 42 :> 0 @@ 43 :> 0 @@ 44 :> 0 @@ 45 :> 0 @@ 46 :> 0 @@ 47 :> 0 @@ 48 :> 0 @@ 49 :> 0 @@ 50 :> 0 @@ 51 :> 0 @@ 52 :> 0 @@ 53 :> 0 @@ 54 :> 0 @@ 55 :> 0 @@ 56 :> 0 @@ 57 :> 0 @@ 58 :> 0 @@ 59 :> 0 @@ 60 :> 0 @@ 61 :> 0 @@ 62 :> 0 @@ 63 :> 0 @@ 64 :> 0),sc |-> 0,hist |-> <<<<"tok", 5, <<98, 108>>>>, <<"tok", 5, <<97>>>>>>,text |-> <<97>>,wfrom |-> "scan",line0 |-> 1,phase |-> "wrap",rfault |-> 0,bstack |-> <<3>>,more |-> FALSE,stk |-> <<0>>,l |-> 25,buf |-> <<98, 108>>,opt |-> [reentrant |-> FALSE, bolneeded |-> FALSE, interactive |-> FALSE, array |-> FALSE, lno |-> TRUE, rejectmode |-> FALSE, bufsize |-> 0, strictread |-> FALSE, userwrap |-> TRUE, failalloc |-> 0, stdio |-> FALSE, yylmax |-> 8192],buf0 |-> <<97>>,lineno |-> 1,switched |-> TRUE,files |-> <<<<>>, <<>>>>,eaten |-> 0,fresh |-> FALSE,eof |-> TRUE,yyin |-> 0,bol |-> TRUE,cands |-> <<>>,bol0 |-> TRUE]),
    ([fid |-> 0,rs |-> 12,cur |-> 3,inited |-> TRUE,pfx |-> <<>>,saved |-> <<[lineno |-> 1, bol |-> TRUE, buf |-> <<>>, fid |-> 1, fresh |-> TRUE, eof |-> FALSE]>>,caps |-> (0 :> 0 @@ 1 :> 16384 @@ 2 :> 16384 @@ 3 :> 0 @@ 4 :> 0 @@ 5 :> 0 @@ 6 :> 0 @@ 7 :> 0 @@ 8 :> 0 @@ 9 :> 0 @@ 10 :> 0 @@ 11 :> 0 @@ 12 :> 0 @@ 13 :> 0 @@ 14 :> 0 @@ 15 :> 0 @@ 16 :> 0 @@ 17 :> 0 @@ 18 :> 0 @@ 19 :> 0 @@ 20 :> 0 @@ 21 :> 0 @@ 22 :> 0 @@ 23 :> 0 @@ 24 :> 0 @@ 25 :> 0 @@ 26 :> 0 @@ 27 :> 0 @@ 28 :> 0 @@ 29 :> 0 @@ 30 :> 0 @@ 31 :> 0 @@ 32 :> 0 @@ 33 :> 0 @@ 34 :> 0 @@ 35 :> 0 @@ 36 :> 0 @@ 37 :> 0 @@ 38 :> 0 @@ 39 :> 0 @@ 40 :> 0 @@ 41 :> 0 @@ 42 :> 0 @@ 43 :> 0 @@ 44 :> 0 @@ 45 :> 0 @@ 46 :> 0 @@ 47 :> 0 @@ 48 :> 0 @@ 49 :> 0 @@ 50 :> 0 @@ 51 :> 0 @@ 52 :> 0 @@ 53 :> 0 @@ 54 :> 0 @@ 55 :> 0 @@ 56 :> 0 @@ 57 :> 0 @@ 58 :> 0 @@ 59 :> 0 @@ 60 :> 0 @@ 61 :> 0 @@ 62 :> 0 @@ 63 :> 0 @@ 64 :> 0),sc |-> 0,hist |-> <<<<"tok", 5, <<98, 108>>>>, <<"tok", 5, <<97>>>>>>,text |-> <<97>>,wfrom |-> "scan",line0 |-> 1,phase |-> "scan",rfault |-> 0,bstack |-> <<3>>,more |-> FALSE,stk |-> <<0>>,l |-> 26,buf |-> <<98, 108>>,opt |-> [reentrant |-> FALSE, bolneeded |-> FALSE, interactive |-> FALSE, array |-> FALSE, lno |-> TRUE, rejectmode |-> FALSE, bufsize |-> 0, strictread |-> FALSE, userwrap |-> TRUE, failalloc |-> 0, stdio |-> FALSE, yylmax |-> 8192],buf0 |-> <<97>>,lineno |-> 1,switched |-> TRUE,files |-> <<<<>>, <<>>>>,eaten |-> 0,fresh |-> FALSE,eof |-> TRUE,yyin |-> 0,bol |-> TRUE,cands |-> <<>>,bol0 |-> TRUE]),
    ([fid |-> 0,rs |-> 12,cur |-> 3,inited |-> TRUE,pfx |-> <<>>,saved |-> <<[lineno |-> 1, bol |-> TRUE, buf |-> <<>>, fid |-> 1, fresh |-> TRUE, eof |-> FALSE]>>,caps |-> (0 :> 0 @@ 1 :> 16384 @@ 2 :> 16384 @@ 3 :> 0 @@ 4 :> 0 @@ 5 :> 0 @@ 6 :> 0 @@ 7 :> 0 @@ 8 :> 0 @@ 9 :> 0 @@ 10 :> 0 @@ 11 :> 0 @@ 12 :> 0 @@ 13 :> 0 @@ 14 :> 0 @@ 15 :> 0 @@ 16 :> 0 @@ 17 :> 0 @@ 18 :> 0 @@ 19 :> 0 @@ 20 :> 0 @@ 21 :> 0 @@ 22 :> 0 @@ 23 :> 0 @@ 24 :> 0 @@ 25 :> 0 @@ 26 :> 0 @@ 27 :> 0 @@ 28 :> 0 @@ 29 :> 0 @@ 30 :> 0 @@ 31 :> 0 @@ 32 :> 0 @@ 33 :> 0 @@ 34 :> 0 @@ 35 :> 0 @@ 36 :> 0 @@ 37 :> 0 @@ 38 :> 0 @@ 39 :> 0 @@ 40 :> 0 @@ 41 :> 0 @@ 42 :> 0 @@ 43 :> 0 @@ 44 :> 0 @@ 45 :> 0 @@ 46 :> 0 @@ 47 :> 0 @@ 48 :> 0 @@ 49 :> 0 @@ 50 :> 0 @@ 51 :> 0 @@ 52 :> 0 @@ 53 :> 0 @@ 54 :> 0 @@ 55 :> 0 @@ 56 :> 0 @@ 57 :> 0 @@ 58 :> 0 @@ 59 :> 0 @@ 60 :> 0 @@ 61 :> 0 @@ 62 :> 0 @@ 63 :> 0 @@ 64 :> 0),sc |-> 0,hist |-> <<<<"tok", 5, <<98, 108>>>>, <<"tok", 5, <<97>>>>, <<"tok", 5, <<98, 108>>>>>>,text |-> <<98, 108>>,wfrom |-> "scan",line0 |-> 1,phase |-> "act",rfault |-> 0,bstack |-> <<3>>,more |-> FALSE,stk |-> <<0>>,l |-> 27,buf |-> <<>>,opt |-> [reentrant |-> FALSE, bolneeded |-> FALSE, interactive |-> FALSE, array |-> FALSE, lno |-> TRUE, rejectmode |-> FALSE, bufsize |-> 0, strictread |-> FALSE, userwrap |-> TRUE, failalloc |-> 0, stdio |-> FALSE, yylmax |-> 8192],buf0 |-> <<98, 108>>,lineno |-> 1,switched |-> TRUE,files |-> <<<<>>, <<>>>>,eaten |-> 0,fresh |-> FALSE,eof |-> TRUE,yyin |-> 0,bol |-> FALSE,cands |-> <<<<5, 1>>, <<7, 1>>>>,bol0 |-> TRUE]),
    ([fid |-> 0,rs |-> 12,cur |-> 3,inited |-> TRUE,pfx |-> <<>>,saved |-> <<[lineno |-> 1, bol |-> TRUE, buf |-> <<>>, fid |-> 1, fresh |-> TRUE, eof |-> FALSE]>>,caps |-> (0 :> 0 @@ 1 :> 16384 @@ 2 :> 16384 @@ 3 :> 0 @@ 4 :> 0 @@ 5 :> 0 @@ 6 :> 0 @@ 7 :> 0 @@ 8 :> 0 @@ 9 :> 0 @@ 10 :> 0 @@ 11 :> 0 @@ 12 :> 0 @@ 13 :> 0 @@ 14 :> 0 @@ 15 :> 0 @@ 16 :> 0 @@ 17 :> 0 @@ 18 :> 0 @@ 19 :> 0 @@ 20 :> 0 @@ 21 :> 0 @@ 22 :> 0 @@ 23 :> 0 @@ 24 :> 0 @@ 25 :> 0 @@ 26 :> 0 @@ 27 :> 0 @@ 28 :> 0 @@ 29 :> 0 @@ 30 :> 0 @@ 31 :> 0 @@ 32 :> 0 @@ 33 :> 0 @@ 34 :> 0 @@ 35 :> 0 @@ 36 :> 0 @@ 37 :> 0 @@ 38 :> 0 @@ 39 :> 0 @@ 40 :> 0 @@ 41 :> 0 @@ 42 :> 0 @@ 43 :> 0 @@ 44 :> 0 @@ 45 :> 0 @@ 46 :> 0 @@ 47 :> 0 @@ 48 :> 0 @@ 49 :> 0 @@ 50 :> 0 @@ 51 :> 0 @@ 52 :> 0 @@ 53 :> 0 @@ 54 :> 0 @@ 55 :> 0 @@ 56 :> 0 @@ 57 :> 0 @@ 58 :> 0 @@ 59 :> 0 @@ 60 :> 0 @@ 61 :> 0 @@ 62 :> 0 @@ 63 :> 0 @@ 64 :> 0),sc |-> 0,hist |-> <<<<"tok", 5, <<98, 108>>>>, <<"tok", 5, <<97>>>>, <<"tok", 5, <<98, 108>>>>>>,text |-> <<98, 108>>,wfrom |-> "scan",line0 |-> 1,phase |-> "act",rfault |-> 0,bstack |-> <<3>>,more |-> FALSE,stk |-> <<0>>,l |-> 28,buf |-> <<>>,opt |-> [reentrant |-> FALSE, bolneeded |-> FALSE, interactive |-> FALSE, array |-> FALSE, lno |-> TRUE, rejectmode |-> FALSE, bufsize |-> 0, strictread |-> FALSE, userwrap |-> TRUE, failalloc |-> 0, stdio |-> FALSE, yylmax |-> 8192],buf0 |-> <<98, 108>>,lineno |-> 1,switched |-> TRUE,files |-> <<<<>>, <<>>>>,eaten |-> 0,fresh |-> FALSE,eof |-> TRUE,yyin |-> 0,bol |-> FALSE,cands |-> <<<<5, 1>>, <<7, 1>>>>,bol0 |-> TRUE]),
    ([fid |-> 0,rs |-> 12,cur |-> 3,inited |-> TRUE,pfx |-> <<>>,saved |-> <<[lineno |-> 1, bol |-> TRUE, buf |-> <<>>, fid |-> 1, fresh |-> TRUE, eof |-> FALSE]>>,caps |-> (0 :> 0 @@ 1 :> 16384 @@ 2 :> 16384 @@ 3 :> 0 @@ 4 :> 0 @@ 5 :> 0 @@ 6 :> 0 @@ 7 :> 0 @@ 8 :> 0 @@ 9 :> 0 @@ 10 :> 0 @@ 11 :> 0 @@ 12 :> 0 @@ 13 :> 0 @@ 14 :> 0 @@ 15 :> 0 @@ 16 :> 0 @@ 17 :> 0 @@ 18 :> 0 @@ 19 :> 0 @@ 20 :> 0 @@ 21 :> 0 @@ 22 :> 0 @@ 23 :> 0 @@ 24 :> 0 @@ 25 :> 0 @@ 26 :> 0 @@ 27 :> 0 @@ 28 :> 0 @@ 29 :> 0 @@ 30 :> 0 @@ 31 :> 0 @@ 32 :> 0 @@ 33 :> 0 @@ 34 :> 0 @@ 35 :> 0 @@ 36 :> 0 @@ 37 :> 0 @@ 38 :> 0 @@ 39 :> 0 @@ 40 :> 0 @@ 41 :> 0 @@ 42 :> 0 @@ 43 :> 0 @@ 44 :> 0 @@ 45 :> 0 @@ 46 :> 0 @@ 47 :> 0 @@ 48 :> 0 @@ 49 :> 0 @@ 50 :> 0 @@ 51 :> 0 @@ 52 :> 0 @@ 53 :> 0 @@ 54 :> 0 @@ 55 :> 0 @@ 56 :> 0 @@ 57 :> 0 @@ 58 :> 0 @@ 59 :> 0 @@ 60 :> 0 @@ 61 :> 0 @@ 62 :> 0 @@ 63 :> 0 @@ 64 :> 0),sc |-> 0,hist |-> <<<<"tok", 5, <<98, 108>>>>, <<"tok", 5, <<97>>>>, <<"tok", 5, <<98, 108>>>>>>,text |-> <<98, 108>>,wfrom |-> "scan",line0 |-> 1,phase |-> "scan",rfault |-> 0,bstack |-> <<3>>,more |-> FALSE,stk |-> <<0>>,l |-> 29,buf |-> <<>>,opt |-> [reentrant |-> FALSE, bolneeded |-> FALSE, interactive |-> FALSE, array |-> FALSE, lno |-> TRUE, rejectmode |-> FALSE, bufsize |-> 0, strictread |-> FALSE, userwrap |-> TRUE, failalloc |-> 0, stdio |-> FALSE, yylmax |-> 8192],buf0 |-> <<98, 108>>,lineno |-> 1,switched |-> TRUE,files |-> <<<<>>, <<>>>>,eaten |-> 0,fresh |-> FALSE,eof |-> TRUE,yyin |-> 0,bol |-> FALSE,cands |-> <<>>,bol0 |-> TRUE]),
    ([fid |-> 0,rs |-> 12,cur |-> 3,inited |-> TRUE,pfx |-> <<>>,saved |-> <<[lineno |-> 1, bol |-> TRUE, buf |-> <<>>, fid |-> 1, fresh |-> TRUE, eof |-> FALSE]>>,caps |-> (0 :> 0 @@ 1 :> 16384 @@ 2 :> 16384 @@ 3 :> 0 @@ 4 :> 0 @@ 5 :> 0 @@ 6 :> 0 @@ 7 :> 0 @@ 8 :> 0 @@ 9 :> 0 @@ 10 :> 0 @@ 11 :> 0 @@ 12 :> 0 @@ 13 :> 0 @@ 14 :> 0 @@ 15 :> 0 @@ 16 :> 0 @@ 17 :> 0 @@ 18 :> 0 @@ 19 :> 0 @@ 20 :> 0 @@ 21 :> 0 @@ 22 :> 0 @@ 23 :> 0 @@ 24 :> 0 @@ 25 :> 0 @@ 26 :> 0 @@ 27 :> 0 @@ 28 :> 0 @@ 29 :> 0 @@ 30 :> 0 @@ 31 :> 0 @@ 32 :> 0 @@ 33 :> 0 @@ 34 :> 0 @@ 35 :> 0 @@ 36 :> 0 @@ 37 :> 0 @@ 38 :> 0 @@ 39 :> 0 @@ 40 :> 0 @@ 41 :> 0 @@ 42 :> 0 @@ 43 :> 0 @@ 44 :> 0 @@ 45 :> 0 @@ 46 :> 0 @@ 47 :> 0 @@ 48 :> 0 @@ 49 :> 0 @@ 50 :> 0 @@ 51 :> 0 @@ 52 :> 0 @@ 53 :> 0 @@ 54 :> 0 @@ 55 :> 0 @@ 56 :> 0 @@ 57 :> 0 @@ 58 :> 0 @@ 59 :> 0 @@ 60 :> 0 @@ 61 :> 0 @@ 62 :> 0 @@ 63 :> 0 @@ 64 :> 0),sc |-> 0,hist |-> <<<<"tok", 5, <<98, 108>>>>, <<"tok", 5, <<97>>>>, <<"tok", 5, <<98, 108>>>>>>,text |-> <<98, 108>>,wfrom |-> "scan",line0 |-> 1,phase |-> "wrap",rfault |-> 0,bstack |-> <<3>>,more |-> FALSE,stk |-> <<0>>,l |-> 30,buf |-> <<>>,opt |-> [reentrant |-> FALSE, bolneeded |-> FALSE, interactive |-> FALSE, array |-> FALSE, lno |-> TRUE, rejectmode |-> FALSE, bufsize |-> 0, strictread |-> FALSE, userwrap |-> TRUE, failalloc |-> 0, stdio |-> FALSE, yylmax |-> 8192],buf0 |-> <<98, 108>>,lineno |-> 1,switched |-> FALSE,files |-> <<<<>>, <<>>>>,eaten |-> 0,fresh |-> FALSE,eof |-> TRUE,yyin |-> 0,bol |-> FALSE,cands |-> <<>>,bol0 |-> TRUE]),
    ([fid |-> 0,rs |-> 12,cur |-> 3,inited |-> TRUE,pfx |-> <<>>,saved |-> <<[lineno |-> 1, bol |-> TRUE, buf |-> <<>>, fid |-> 1, fresh |-> TRUE, eof |-> FALSE]>>,caps |-> (0 :> 0 @@ 1 :> 16384 @@ 2 :> 16384 @@ 3 :> 0 @@ 4 :> 0 @@ 5 :> 0 @@ 6 :> 0 @@ 7 :> 0 @@ 8 :> 0 @@ 9 :> 0 @@ 10 :> 0 @@ 11 :> 0 @@ 12 :> 0 @@ 13 :> 0 @@ 14 :> 0 @@ 15 :> 0 @@ 16 :> 0 @@ 17 :> 0 @@ 18 :> 0 @@ 19 :> 0 @@ 20 :> 0 @@ 21 :> 0 @@ 22 :> 0 @@ 23 :> 0 @@ 24 :> 0 @@ 25 :> 0 @@ 26 :> 0 @@ 27 :> 0 @@ 28 :> 0 @@ 29 :> 0 @@ 30 :> 0 @@ 31 :> 0 @@ 32 :> 0 @@ 33 :> 0 @@ 34 :> 0 @@ 35 :> 0 @@ 36 :> 0 @@ 37 :> 0 @@ 38 :> 0 @@ 39 :> 0 @@ 40 :> 0 @@ 41 :> 0 @@ 42 :> 0 @@ 43 :> 0 @@ 44 :> 0 @@ 45 :> 0 @@ 46 :> 0 @@ 47 :> 0 @@ 48 :> 0 @@ 49 :> 0 @@ 50 :> 0 @@ 51 :> 0 @@ 52 :> 0 @@ 53 :> 0 @@ 54 :> 0 @@ 55 :> 0 @@ 56 :> 0 @@ 57 :> 0 @@ 58 :> 0 @@ 59 :> 0 @@ 60 :> 0 @@ 61 :> 0 @@ 62 :> 0 @@ 63 :> 0 @@ 64 :> 0),sc |-> 0,hist |-> <<<<"tok", 5, <<98, 108>>>>, <<"tok", 5, <<97>>>>, <<"tok", 5, <<98, 108>>>>>>,text |-> <<98, 108>>,wfrom |-> "scan",line0 |-> 1,phase |-> "wrap",rfault |-> 0,bstack |-> <<3>>,more |-> FALSE,stk |-> <<0>>,l |-> 31,buf |-> <<>>,opt |-> [reentrant |-> FALSE, bolneeded |-> FALSE, interactive |-> FALSE, array |-> FALSE, lno |-> TRUE, rejectmode |-> FALSE, bufsize |-> 0, strictread |-> FALSE, userwrap |-> TRUE, failalloc |-> 0, stdio |-> FALSE, yylmax |-> 8192],buf0 |-> <<98, 108>>,lineno |-> 1,switched |-> FALSE,files |-> <<<<98, 108>>, <<>>>>,eaten |-> 0,fresh |-> FALSE,eof |-> TRUE,yyin |-> 0,bol |-> FALSE,cands |-> <<>>,bol0 |-> TRUE]),
    ([fid |-> 0,rs |-> 12,cur |-> 3,inited |-> TRUE,pfx |-> <<>>,saved |-> <<[lineno |-> 1, bol |-> TRUE, buf |-> <<>>, fid |-> 1, fresh |-> TRUE, eof |-> FALSE]>>,caps |-> (0 :> 0 @@ 1 :> 16384 @@ 2 :> 16384 @@ 3 :> 0 @@ 4 :> 0 @@ 5 :> 0 @@ 6 :> 0 @@ 7 :> 0 @@ 8 :> 0 @@ 9 :> 0 @@ 10 :> 0 @@ 11 :> 0 @@ 12 :> 0 @@ 13 :> 0 @@ 14 :> 0 @@ 15 :> 0 @@ 16 :> 0 @@ 17 :> 0 @@ 18 :> 0 @@ 19 :> 0 @@ 20 :> 0 @@ 21 :> 0 @@ 22 :> 0 @@ 23 :> 0 @@ 24 :> 0 @@ 25 :> 0 @@ 26 :> 0 @@ 27 :> 0 @@ 28 :> 0 @@ 29 :> 0 @@ 30 :> 0 @@ 31 :> 0 @@ 32 :> 0 @@ 33 :> 0 @@ 34 :> 0 @@ 35 :> 0 @@ 36 :> 0 @@ 37 :> 0 @@ 38 :> 0 @@ 39 :> 0 @@ 40 :> 0 @@ 41 :> 0 @@ 42 :> 0 @@ 43 :> 0 @@ 44 :> 0 @@ 45 :> 0 @@ 46 :> 0 @@ 47 :> 0 @@ 48 :> 0 @@ 49 :> 0 @@ 50 :> 0 @@ 51 :> 0 @@ 52 :> 0 @@ 53 :> 0 @@ 54 :> 0 @@ 55 :> 0 @@ 56 :> 0 @@ 57 :> 0 @@ 58 :> 0 @@ 59 :> 0 @@ 60 :> 0 @@ 61 :> 0 @@ 62 :> 0 @@ 63 :> 0 @@ 64 :> 0),sc |-> 0,hist |-> <<<<"tok", 5, <<98, 108>>>>, <<"tok", 5, <<97>>>>, <<"tok", 5, <<98, 108>>>>>>,text |-> <<98, 108>>,wfrom |-> "scan",line0 |-> 1,phase |-> "scan",rfault |-> 0,bstack |-> <<3>>,more |-> FALSE,stk |-> <<0>>,l |-> 32,buf |-> <<>>,opt |-> [reentrant |-> FALSE, bolneeded |-> FALSE, interactive |-> FALSE, array |-> FALSE, lno |-> TRUE, rejectmode |-> FALSE, bufsize |-> 0, strictread |-> FALSE, userwrap |-> TRUE, failalloc |-> 0, stdio |-> FALSE, yylmax |-> 8192],buf0 |-> <<98, 108>>,lineno |-> 1,switched |-> FALSE,files |-> <<<<98, 108>>, <<>>>>,eaten |-> 0,fresh |-> TRUE,eof |-> FALSE,yyin |-> 0,bol |-> TRUE,cands |-> <<>>,bol0 |-> TRUE])
    >>
----


=============================================================================

---- CONFIG Trace_Scanner_TTrace_1790691838 ----
CONSTANTS
    RSets <- RSetsDef

INVARIANT
    _inv

CHECK_DEADLOCK
    \* CHECK_DEADLOCK off because of PROPERTY or INVARIANT above.
    FALSE

INIT
    _init

NEXT
    _next

CONSTANT
    _TETrace <- _trace

ALIAS
    _expression
=============================================================================
\* Generated on Tue Sep 29 14:24:07 UTC 2026
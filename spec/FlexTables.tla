--------------------------- MODULE FlexTables ---------------------------
(***************************************************************************)
(* How the scanner's matching loop reads the generated tables - one        *)
(* interpreter per representation, transcribed from the skeleton           *)
(* (cpp-flex.skl: M4_GEN_NEXT_COMPRESSED_STATE, the -Cf while loop,        *)
(* M4_GEN_NEXT_MATCH_FULLSPD, yy_try_NUL_trans, yy_find_action).           *)
(*                                                                         *)
(* A table record T (dumped as JSON by the generated scanner itself):      *)
(*   mode \in {"cmp","full","fullspd"}, reject, useecs, usemecs, csize,    *)
(*   ec, meta, base, def, nxt, chk, accept, acclist      (C arrays)        *)
(*   nxt2 (rows of the -Cf table), nultrans, trans (<<verify,nxt>> pairs), *)
(*   ssl (start-state offsets for -CF)                                     *)
(*   jamstate, jambase, nulec, eobact (= number of rules + 1)              *)
(* C index i of array a is a[i+1]; every access goes through At(), which   *)
(* yields OOB outside the array - IndexSafe says that never happens.       *)
(***************************************************************************)
EXTENDS Naturals, Integers, Sequences, FiniteSets

OOB   == -7000001     \* an index outside its array was formed
LOOPS == -7000002     \* the default chain did not terminate
JAM   == -1           \* no transition: the match loop stops here
Bad(x) == x = OOB \/ x = LOOPS

In(a, i) == i >= 0 /\ i < Len(a)
At(a, i) == IF In(a, i) THEN a[i + 1] ELSE OOB

TRAILING_MASK      == 8192     \* YY_TRAILING_MASK 0x2000
TRAILING_HEAD_MASK == 16384    \* YY_TRAILING_HEAD_MASK 0x4000

\* equivalence class used for input byte b (b = 0: a real NUL, which the
\* scanner handles through YY_NUL_EC after telling it from the sentinel)
Class(T, b) == IF b = 0 THEN T.nulec ELSE IF T.useecs THEN At(T.ec, b) ELSE b
\* class under which the *sentinel* NUL is looked up in the main loop
SentinelClass(T) == IF T.useecs THEN At(T.ec, 0) ELSE 0

-----------------------------------------------------------------------------
\* compressed tables
RECURSIVE Chase(_, _, _, _)
Chase(T, s, c, fuel) ==
  IF fuel = 0 THEN LOOPS
  ELSE LET b == At(T.base, s) IN
       IF Bad(b) \/ Bad(c) THEN OOB
       ELSE LET k == At(T.chk, b + c) IN
            IF Bad(k) THEN OOB
            ELSE IF k = s THEN At(T.nxt, b + c)
            ELSE LET s2 == At(T.def, s) IN
                 IF Bad(s2) THEN OOB
                 ELSE Chase(T, s2,
                            IF T.usemecs /\ s2 >= T.jamstate + 1 THEN At(T.meta, c) ELSE c,
                            fuel - 1)
NextCmpRaw(T, s, c) == Chase(T, s, c, Len(T.base) + 2)
NextCmp(T, s, c) == LET n == NextCmpRaw(T, s, c) IN IF n = T.jamstate THEN JAM ELSE n

\* full table (-Cf): jam entries are <= 0
NextFullRaw(T, s, c) == IF ~In(T.nxt2, s) THEN OOB ELSE At(T.nxt2[s + 1], c)
NextFull(T, s, b) ==
  LET n == IF b = 0 /\ Len(T.nultrans) > 0 THEN At(T.nultrans, s)
           ELSE NextFullRaw(T, s, Class(T, b)) IN
  IF Bad(n) THEN n ELSE IF n <= 0 THEN JAM ELSE n

\* full-speed table (-CF): states are offsets into the transition array
NextSpd(T, s, c) ==
  IF Bad(c) \/ ~In(T.trans, s + c) THEN OOB
  ELSE LET e == T.trans[s + c + 1] IN IF e[1] = c THEN s + e[2] ELSE JAM

TNext(T, s, b) ==
  CASE T.mode = "cmp"     -> NextCmp(T, s, Class(T, b))
    [] T.mode = "full"    -> NextFull(T, s, b)
    [] T.mode = "fullspd" -> NextSpd(T, s, Class(T, b))

\* state reached on the end-of-buffer sentinel (every state must have it and
\* it must select the end-of-buffer action)
NextSentinel(T, s) ==
  CASE T.mode = "cmp"     -> NextCmp(T, s, SentinelClass(T))
    [] T.mode = "full"    -> LET n == NextFullRaw(T, s, SentinelClass(T)) IN
                             IF Bad(n) THEN n ELSE IF n <= 0 THEN JAM ELSE n
    [] T.mode = "fullspd" -> NextSpd(T, s, SentinelClass(T))

StartState(T, sc, bol) ==   \* sc is 1-based (1 = INITIAL)
  LET y == 1 + 2 * (sc - 1) + (IF bol THEN 1 ELSE 0) IN
  IF T.mode = "fullspd" THEN At(T.ssl, y) ELSE y

\* yy_act chosen in a state (non-REJECT scanners); 0 = not accepting
Act(T, s) ==
  IF T.mode = "fullspd" THEN (IF In(T.trans, s - 1) THEN T.trans[s][2] ELSE OOB)
  ELSE At(T.accept, s)

\* accepting list of a state (REJECT scanners): yy_acclist[yy_accept[s] .. yy_accept[s+1])
AccSlice(T, s) ==
  LET lo == At(T.accept, s) hi == At(T.accept, s + 1) IN
  IF Bad(lo) \/ Bad(hi) \/ lo < 0 \/ hi > Len(T.acclist) \/ hi < lo THEN <<OOB>>
  ELSE IF lo = 0 THEN <<>>      \* yy_lp == 0 means "no accepting list"
  ELSE [i \in 1..(hi - lo) |-> T.acclist[lo + i]]

\* "no transition leaves s": what the interactive match loop tests
\* (yy_base[s] == YY_JAMBASE) in order to stop without reading further
StopsHere(T, s) == T.mode = "cmp" /\ At(T.base, s) = T.jambase

\* one representative byte per class, plus NUL
Reps(T) ==
  IF T.useecs
  THEN {0} \cup {CHOOSE b \in 1..(T.csize - 1) : At(T.ec, b) = e : e \in {At(T.ec, b) : b \in 1..(T.csize - 1)}}
  ELSE 0..(T.csize - 1)
RepOf(T, b) == IF b = 0 \/ ~T.useecs THEN b ELSE CHOOSE r \in Reps(T) \ {0} : At(T.ec, r) = At(T.ec, b)
=============================================================================

SPECIFICATION Spec
CONSTANTS N = 3
          K = 2
INVARIANT Isolated
INVARIANT Collect
POSTCONDITION Export
CHECK_DEADLOCK FALSE

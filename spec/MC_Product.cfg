SPECIFICATION Spec
VIEW View
INVARIANT IndexSafe
INVARIANT Bisim
INVARIANT EobOK
INVARIANT StopOK
INVARIANT EcSound
INVARIANT Observe
CHECK_DEADLOCK FALSE

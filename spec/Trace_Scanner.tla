--------------------------- MODULE Trace_Scanner ---------------------------
(***************************************************************************)
(* Trace validation: is each execution recorded from a really generated    *)
(* scanner a behaviour of FlexScanner?                                     *)
(*                                                                         *)
(* TRACE  : ndjson, one event per line (see harness/harness_top.inc);      *)
(*          executions are concatenated, each starts with a Reset event.   *)
(* CASES  : ndjson, the rule-set sources the scanners were generated from. *)
(* Every event carries its arguments and the cheap scalar state, so the    *)
(* trace spec does not branch: the search is one path and the depth TLC    *)
(* reports is the number of events explained (acceptance: all of them).    *)
(***************************************************************************)
EXTENDS FlexScanner, FlexGeom, Json, IOUtils

Cases == ndJsonDeserialize(IOEnv.CASES)
RSetsDef == [k \in 1..Len(Cases) |-> Compile(Cases[k].src)]
Tr == ndJsonDeserialize(IOEnv.TRACE)

VARIABLES l,
          rfault,   \* errno of an injected hard read error not yet reported by the scanner (0: none)
          caps      \* yy_buf_size of every buffer as far as the trace has shown it (0: not yet)
tvars == <<svars, l, rfault, caps>>

E == Tr[l]
Is(e) == /\ l <= Len(Tr) /\ E.e = e /\ l' = l + 1 /\ (E.e \in {"ReadFault", "Fatal", "Reset"} \/ UNCHANGED rfault)
         /\ (E.e \in {"Read", "Reset"} \/ UNCHANGED caps)

StateOK == /\ E.sc = sc' /\ E.depth = Len(stk')
           /\ (opt'.reentrant /\ cur' = 0) \/ E.lineno = lineno'     \* reentrant: yylineno lives in the current buffer
           /\ (opt'.bolneeded /\ cur' # 0) => (E.bol = IF bol' THEN 1 ELSE 0)
BufOK == StateOK /\ E.cur = cur'
Same == UNCHANGED svars

NoCaps == [b \in 0..64 |-> 0]
TInit == SInit /\ l = 1 /\ rfault = 0 /\ caps = NoCaps

TReset == /\ Is("Reset") /\ rfault' = 0 /\ caps' = NoCaps
          /\ Reset(E.rs, E.files, [interactive |-> E.interactive, array |-> E.array, lno |-> E.linenoopt,
                                   bolneeded |-> E.bolneeded, rejectmode |-> E.rejectmode, bufsize |-> E.bufsize,
                                   strictread |-> E.strictread, reentrant |-> E.reentrant, userwrap |-> E.userwrap,
                                   failalloc |-> E.failalloc, stdio |-> E.stdio, yylmax |-> E.yylmax])
\* A request made by the scanner's own refill (harness-owned YY_INPUT: the event carries the geometry it was
\* made from).  What the properties demand of it is safety, not a policy: the text carried over and the bytes
\* requested, with the two end-of-buffer sentinels, fit the buffer whatever the source then delivers (C13), at
\* least one byte is asked for (progress, C03), nothing pending is dropped, and a buffer that may not grow -
\* REJECT scanners, as documented - does not.  How much a buffer grows and how large requests are (doubling,
\* YY_READ_BUF_SIZE: FlexGeom / FlexBuffer describe the present code) is deliberately not enforced.
Geometry ==
  IF "cap" \in DOMAIN E /\ cur # 0 /\ cur <= 64
  THEN /\ caps' = [caps EXCEPT ![cur] = E.cap]
       /\ E.req >= 1 /\ E.keep >= 0 /\ E.keep + E.req <= E.cap
       /\ phase = "scan" => E.keep >= InBufPfx + Len(buf)
       /\ (opt.rejectmode /\ caps[cur] # 0) => E.cap = caps[cur]
  ELSE UNCHANGED caps
TCall  == Is("Call") /\ Call
TRead  == /\ Is("Read") /\ E.f + 1 = ReadFile /\ E.got = Len(E.bytes) /\ ReadFile <= Len(files)
          /\ E.got <= Len(files[ReadFile]) /\ E.bytes = SubSeq(files[ReadFile], 1, E.got) /\ Read(E.got)
          /\ Geometry
TTok   == /\ Is("Tok") /\ E.leng >= Len(pfx)
          /\ \/ Match(E.rule, E.leng - Len(pfx))
             \/ MatchAgain(E.rule, E.leng - Len(pfx))
          /\ E.text = text' /\ StateOK
TReject == Is("Reject") /\ Reject /\ StateOK
TActEnd == Is("ActEnd") /\ ActEnd
TRet    == Is("Ret") /\ Return /\ StateOK
TLess   == Is("Less") /\ Less(E.n) /\ E.text = text' /\ E.leng = E.n /\ StateOK
TMore   == Is("More") /\ More /\ StateOK
TUnput  == Is("Unput") /\ Unput(E.c) /\ StateOK /\ (opt.array => E.text = text')
TInput  == Is("Input") /\ (IF buf # <<>> THEN Input(E.c) ELSE (InputEnd /\ E.c \in {0, -1})) /\ StateOK
TBegin  == Is("Begin") /\ Begin(E.s) /\ StateOK
TPush   == Is("Push") /\ Push(E.s) /\ StateOK
TPop    == Is("Pop") /\ Pop /\ StateOK
TPopU   == Is("PopU") /\ PopUnderflow /\ l + 1 <= Len(Tr) /\ Tr[l + 1].e = "Fatal"
TTop    == Is("Top") /\ TopIs(E.v) /\ Same
TSetBol == Is("SetBol") /\ SetBol(E.v # 0) /\ StateOK   \* "a non-zero argument makes ^ rules active"
TSetLineno == Is("SetLineno") /\ SetLineno(E.v) /\ E.got = E.v /\ StateOK
TEof    == Is("Eof") /\ (IF opt.userwrap THEN EofAct(E.k) ELSE AtEof(E.k)) /\ StateOK
\* yylex() returned 0: either an <<EOF>> action just did that, or the default one does
TEnd    == Is("End") /\ (IF phase = "done" THEN Same ELSE IF opt.userwrap THEN EofAct(0) ELSE AtEof(0))
TFin    == Is("Fin") /\ phase \in {"done", "out"} /\ Same
TCounts == Is("Counts") /\ Same
\* a read attempt that fails: EINTR (4) must be retried transparently.  Any other error persists (as
\* on a broken device); stdio may first hand over bytes transferred before the error, but the next
\* request fails again and that must be reported through the fatal-error hook at once.
TReadFault == /\ Is("ReadFault") /\ Same
              /\ IF E.errno = 4 THEN rfault' = rfault
                 ELSE IF rfault = 0 THEN rfault' = E.errno
                 ELSE rfault' = rfault /\ l + 1 <= Len(Tr) /\ Tr[l + 1].e = "Fatal"
TInitFail == Is("InitFail") /\ opt.failalloc > 0 /\ E.r # 0 /\ E.errno \in {12, 22} /\ phase' = "done"
             /\ UNCHANGED <<rs, inited, opt, bvars, cvars, lineno, kvars, wfrom, switched, hist>>
TFatal  == /\ Is("Fatal") /\ rfault' = 0
           /\ \/ E.cls = "underflow" /\ phase = "fatal" /\ Same
              \/ E.cls = "rejectoverflow" /\ FatalRejectOverflow
              \/ E.cls = "pushback" /\ FatalPushback
              \/ E.cls = "toolarge" /\ FatalTooLarge
              \/ E.cls \in {"oom", "other"} /\ opt.failalloc > 0 /\ Same    \* which request was refused: see Trace_Heap
              \/ E.cls = "readerr" /\ rfault # 0 /\ Same

TWrapEnter == Is("WrapEnter") /\ WrapEnter /\ BufOK
TWrapRet   == Is("WrapRet") /\ (IF E.r = 1 THEN WrapRet1 ELSE WrapRet0) /\ BufOK
TSetYyin   == Is("SetYyin") /\ SetYyin(E.f + 1) /\ BufOK
TNewBuf    == Is("NewBuf") /\ NewBuf(E.b, E.f + 1) /\ BufOK
TNewMem    == Is("NewMem") /\ ScanMem(E.b, E.bytes) /\ BufOK
TScanFail  == Is("ScanFail") /\ E.null = 1 /\ Same      \* no two terminating NULs: yy_scan_buffer returns NULL
TSwitch    == Is("Switch") /\ SwitchTo(E.b) /\ BufOK
TPushBuf   == Is("PushBuf") /\ PushBuf(E.b) /\ BufOK
TPopBuf    == Is("PopBuf") /\ PopBuf /\ BufOK
TFlush     == Is("Flush") /\ Flush(E.b) /\ BufOK
TDelete    == Is("Delete") /\ Delete(E.b) /\ BufOK
TRestart   == Is("Restart") /\ Restart(E.f + 1) /\ BufOK
TReopen    == Is("Reopen") /\ Reopen(E.f + 1, E.bytes) /\ BufOK

TNext == \/ TReset \/ TCall \/ TRead \/ TTok \/ TReject \/ TActEnd \/ TRet \/ TLess \/ TMore \/ TUnput \/ TInput
         \/ TBegin \/ TPush \/ TPop \/ TPopU \/ TTop \/ TSetBol \/ TEof \/ TEnd \/ TFin \/ TFatal
         \/ TWrapEnter \/ TWrapRet \/ TSetYyin \/ TNewBuf \/ TNewMem \/ TScanFail \/ TSwitch \/ TPushBuf
         \/ TSetLineno \/ TPopBuf \/ TFlush \/ TDelete \/ TRestart \/ TReopen \/ TCounts \/ TReadFault \/ TInitFail
TSpec == TInit /\ [][TNext]_tvars

Accepted == TLCGet("stats").diameter - 1 = Len(Tr)
=============================================================================

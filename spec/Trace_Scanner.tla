--------------------------- MODULE Trace_Scanner ---------------------------
(***************************************************************************)
(* Trace validation: is each execution recorded from a really generated    *)
(* scanner a behaviour of FlexScanner?                                     *)
(*                                                                         *)
(* TRACE  : ndjson, one event per line (see harness/harness_top.inc);      *)
(*          executions are concatenated, each starts with a Reset event.   *)
(* CASES  : ndjson, the rule-set sources the scanners were generated from. *)
(* Every event carries its arguments and the cheap scalar state, so the    *)
(* trace spec does not branch: the search is one path and the depth TLC    *)
(* reports is the number of events explained (acceptance: all of them).    *)
(***************************************************************************)
EXTENDS FlexScanner, TLC, Json, IOUtils

Cases == ndJsonDeserialize(IOEnv.CASES)
RSetsDef == [k \in 1..Len(Cases) |-> Compile(Cases[k].src)]
Tr == ndJsonDeserialize(IOEnv.TRACE)

VARIABLE l
tvars == <<svars, l>>

E == Tr[l]
Is(e) == l <= Len(Tr) /\ E.e = e /\ l' = l + 1

StateOK == /\ E.sc = sc' /\ E.lineno = lineno' /\ E.depth = Len(stk')
           /\ opt'.bolneeded => (E.bol = IF bol' THEN 1 ELSE 0)
Same == UNCHANGED svars

TInit == SInit /\ l = 1

TReset == /\ Is("Reset")
          /\ Reset(E.rs, E.input, [interactive |-> E.interactive, array |-> E.array, lno |-> E.linenoopt,
                                   bolneeded |-> E.bolneeded, rejectmode |-> E.rejectmode, bufsize |-> E.bufsize,
                                   strictread |-> E.strictread])
TRead  == Is("Read") /\ E.got = Len(E.bytes) /\ E.got <= Len(inp) /\ E.bytes = SubSeq(inp, 1, E.got) /\ Read(E.got)
TTok   == /\ Is("Tok") /\ E.leng >= Len(pfx)
          /\ \/ Match(E.rule, E.leng - Len(pfx))
             \/ MatchAgain(E.rule, E.leng - Len(pfx))
          /\ E.text = text' /\ StateOK
TReject == Is("Reject") /\ Reject /\ StateOK
TActEnd == Is("ActEnd") /\ ActEnd
TRet    == Is("Ret") /\ Return /\ StateOK
TLess   == Is("Less") /\ Less(E.n) /\ E.text = text' /\ E.leng = E.n /\ StateOK
TMore   == Is("More") /\ More /\ StateOK
TUnput  == Is("Unput") /\ Unput(E.c) /\ StateOK /\ (opt.array => E.text = text')
TInput  == Is("Input") /\ (IF buf # <<>> THEN Input(E.c) ELSE (InputEnd /\ E.c \in {0, -1})) /\ StateOK
TBegin  == Is("Begin") /\ Begin(E.s) /\ StateOK
TPush   == Is("Push") /\ Push(E.s) /\ StateOK
TPop    == Is("Pop") /\ Pop /\ StateOK
TPopU   == Is("PopU") /\ PopUnderflow /\ l + 1 <= Len(Tr) /\ Tr[l + 1].e = "Fatal"
TTop    == Is("Top") /\ TopIs(E.v) /\ Same
TSetBol == Is("SetBol") /\ SetBol(E.v = 1) /\ StateOK
TEof    == Is("Eof") /\ AtEof(E.k) /\ StateOK
TEnd    == Is("End") /\ (IF phase = "done" THEN Same ELSE AtEof(0))
TFatal  == /\ Is("Fatal")
           /\ \/ E.cls = "underflow" /\ phase = "fatal" /\ Same
              \/ E.cls = "rejectoverflow" /\ FatalRejectOverflow
              \/ E.cls = "pushback" /\ FatalPushback

TNext == \/ TReset \/ TRead \/ TTok \/ TReject \/ TActEnd \/ TRet \/ TLess \/ TMore \/ TUnput \/ TInput
         \/ TBegin \/ TPush \/ TPop \/ TPopU \/ TTop \/ TSetBol \/ TEof \/ TEnd \/ TFatal
TSpec == TInit /\ [][TNext]_tvars

TView == <<svars, l>>
Accepted == TLCGet("stats").diameter - 1 = Len(Tr)
=============================================================================

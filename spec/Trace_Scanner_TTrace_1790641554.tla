---- MODULE Trace_Scanner_TTrace_1790641554 ----
EXTENDS Sequences, TLCExt, Trace_Scanner, Toolbox, Naturals, TLC

_expression ==
    LET Trace_Scanner_TEExpression == INSTANCE Trace_Scanner_TEExpression
    IN Trace_Scanner_TEExpression!expression
----

_trace ==
    LET Trace_Scanner_TETrace == INSTANCE Trace_Scanner_TETrace
    IN Trace_Scanner_TETrace!trace
----

_inv ==
    ~(
        TLCGet("level") = Len(_TETrace)
        /\
        phase = ("scan")
        /\
        rs = (1)
        /\
        pfx = (<<>>)
        /\
        more = (FALSE)
        /\
        inp = (<<10, 98, 97, 10, 10, 97>>)
        /\
        stk = (<<>>)
        /\
        l = (15)
        /\
        sc = (2)
        /\
        buf = (<<99, 10, 98>>)
        /\
        opt = ([bolneeded |-> TRUE, interactive |-> TRUE, array |-> FALSE, lno |-> TRUE, rejectmode |-> TRUE, bufsize |-> 0])
        /\
        hist = (<<<<"tok", 8, <<10>>>>, <<"tok", 8, <<10>>>>, <<"tok", 4, <<98>>>>, <<"unput", 97>>, <<"tok", 9, <<98>>>>>>)
        /\
        buf0 = (<<98, 99, 10, 98>>)
        /\
        lineno = (3)
        /\
        text = (<<98>>)
        /\
        eof = (FALSE)
        /\
        bol = (FALSE)
        /\
        cands = (<<>>)
        /\
        line0 = (3)
        /\
        bol0 = (TRUE)
    )
----

_init ==
    /\ text = _TETrace[1].text
    /\ l = _TETrace[1].l
    /\ inp = _TETrace[1].inp
    /\ eof = _TETrace[1].eof
    /\ buf0 = _TETrace[1].buf0
    /\ bol = _TETrace[1].bol
    /\ cands = _TETrace[1].cands
    /\ more = _TETrace[1].more
    /\ phase = _TETrace[1].phase
    /\ pfx = _TETrace[1].pfx
    /\ buf = _TETrace[1].buf
    /\ line0 = _TETrace[1].line0
    /\ opt = _TETrace[1].opt
    /\ rs = _TETrace[1].rs
    /\ sc = _TETrace[1].sc
    /\ hist = _TETrace[1].hist
    /\ stk = _TETrace[1].stk
    /\ bol0 = _TETrace[1].bol0
    /\ lineno = _TETrace[1].lineno
----

_next ==
    /\ \E i,j \in DOMAIN _TETrace:
        /\ \/ /\ j = i + 1
              /\ i = TLCGet("level")
        /\ text  = _TETrace[i].text
        /\ text' = _TETrace[j].text
        /\ l  = _TETrace[i].l
        /\ l' = _TETrace[j].l
        /\ inp  = _TETrace[i].inp
        /\ inp' = _TETrace[j].inp
        /\ eof  = _TETrace[i].eof
        /\ eof' = _TETrace[j].eof
        /\ buf0  = _TETrace[i].buf0
        /\ buf0' = _TETrace[j].buf0
        /\ bol  = _TETrace[i].bol
        /\ bol' = _TETrace[j].bol
        /\ cands  = _TETrace[i].cands
        /\ cands' = _TETrace[j].cands
        /\ more  = _TETrace[i].more
        /\ more' = _TETrace[j].more
        /\ phase  = _TETrace[i].phase
        /\ phase' = _TETrace[j].phase
        /\ pfx  = _TETrace[i].pfx
        /\ pfx' = _TETrace[j].pfx
        /\ buf  = _TETrace[i].buf
        /\ buf' = _TETrace[j].buf
        /\ line0  = _TETrace[i].line0
        /\ line0' = _TETrace[j].line0
        /\ opt  = _TETrace[i].opt
        /\ opt' = _TETrace[j].opt
        /\ rs  = _TETrace[i].rs
        /\ rs' = _TETrace[j].rs
        /\ sc  = _TETrace[i].sc
        /\ sc' = _TETrace[j].sc
        /\ hist  = _TETrace[i].hist
        /\ hist' = _TETrace[j].hist
        /\ stk  = _TETrace[i].stk
        /\ stk' = _TETrace[j].stk
        /\ bol0  = _TETrace[i].bol0
        /\ bol0' = _TETrace[j].bol0
        /\ lineno  = _TETrace[i].lineno
        /\ lineno' = _TETrace[j].lineno

\* Uncomment the ASSUME below to write the states of the error trace
\* to the given file in Json format. Note that you can pass any tuple
\* to `JsonSerialize`. For example, a sub-sequence of _TETrace.
    \* ASSUME
    \*     LET J == INSTANCE Json
    \*         IN J!JsonSerialize("Trace_Scanner_TTrace_1790641554.json", _TETrace)

=============================================================================

 Note that you can extract this module `Trace_Scanner_TEExpression`
  to a dedicated file to reuse `expression` (the module in the 
  dedicated `Trace_Scanner_TEExpression.tla` file takes precedence 
  over the module `Trace_Scanner_TEExpression` below).

---- MODULE Trace_Scanner_TEExpression ----
EXTENDS Sequences, TLCExt, Trace_Scanner, Toolbox, Naturals, TLC

expression == 
    [
        \* To hide variables of the `Trace_Scanner` spec from the error trace,
        \* remove the variables below.  The trace will be written in the order
        \* of the fields of this record.
        text |-> text
        ,l |-> l
        ,inp |-> inp
        ,eof |-> eof
        ,buf0 |-> buf0
        ,bol |-> bol
        ,cands |-> cands
        ,more |-> more
        ,phase |-> phase
        ,pfx |-> pfx
        ,buf |-> buf
        ,line0 |-> line0
        ,opt |-> opt
        ,rs |-> rs
        ,sc |-> sc
        ,hist |-> hist
        ,stk |-> stk
        ,bol0 |-> bol0
        ,lineno |-> lineno
        
        \* Put additional constant-, state-, and action-level expressions here:
        \* ,_stateNumber |-> _TEPosition
        \* ,_textUnchanged |-> text = text'
        
        \* Format the `text` variable as Json value.
        \* ,_textJson |->
        \*     LET J == INSTANCE Json
        \*     IN J!ToJson(text)
        
        \* Lastly, you may build expressions over arbitrary sets of states by
        \* leveraging the _TETrace operator.  For example, this is how to
        \* count the number of times a spec variable changed up to the current
        \* state in the trace.
        \* ,_textModCount |->
        \*     LET F[s \in DOMAIN _TETrace] ==
        \*         IF s = 1 THEN 0
        \*         ELSE IF _TETrace[s].text # _TETrace[s-1].text
        \*             THEN 1 + F[s-1] ELSE F[s-1]
        \*     IN F[_TEPosition - 1]
    ]

=============================================================================



Parsing and semantic processing can take forever if the trace below is long.
 In this case, it is advised to uncomment the module below to deserialize the
 trace from a generated binary file.

\*
\*---- MODULE Trace_Scanner_TETrace ----
\*EXTENDS IOUtils, Trace_Scanner, TLC
\*
\*trace == IODeserialize("Trace_Scanner_TTrace_1790641554.bin", TRUE)
\*
\*=============================================================================
\*

---- MODULE Trace_Scanner_TETrace ----
EXTENDS Trace_Scanner, TLC

trace == 
    <<
    ([phase |-> "done",rs |-> 1,pfx |-> <<>>,more |-> FALSE,inp |-> <<>>,stk |-> <<>>,l |-> 1,sc |-> 0,buf |-> <<>>,opt |-> [bolneeded |-> TRUE, interactive |-> TRUE, array |-> FALSE, lno |-> TRUE, rejectmode |-> FALSE, bufsize |-> 0],hist |-> <<>>,buf0 |-> <<>>,lineno |-> 1,text |-> <<>>,eof |-> FALSE,bol |-> TRUE,cands |-> <<>>,line0 |-> 1,bol0 |-> TRUE]),
    ([phase |-> "scan",rs |-> 1,pfx |-> <<>>,more |-> FALSE,inp |-> <<10, 10, 98, 99, 10, 98, 10, 98, 97, 10, 10, 97>>,stk |-> <<>>,l |-> 2,sc |-> 0,buf |-> <<>>,opt |-> [bolneeded |-> TRUE, interactive |-> TRUE, array |-> FALSE, lno |-> TRUE, rejectmode |-> TRUE, bufsize |-> 0],hist |-> <<>>,buf0 |-> <<>>,lineno |-> 1,text |-> <<>>,eof |-> FALSE,bol |-> TRUE,cands |-> <<>>,line0 |-> 1,bol0 |-> TRUE]),
    ([phase |-> "scan",rs |-> 1,pfx |-> <<>>,more |-> FALSE,inp |-> <<10, 10, 98, 99, 10, 98, 10, 98, 97, 10, 10, 97>>,stk |-> <<>>,l |-> 3,sc |-> 2,buf |-> <<>>,opt |-> [bolneeded |-> TRUE, interactive |-> TRUE, array |-> FALSE, lno |-> TRUE, rejectmode |-> TRUE, bufsize |-> 0],hist |-> <<>>,buf0 |-> <<>>,lineno |-> 1,text |-> <<>>,eof |-> FALSE,bol |-> TRUE,cands |-> <<>>,line0 |-> 1,bol0 |-> TRUE]),
    ([phase |-> "scan",rs |-> 1,pfx |-> <<>>,more |-> FALSE,inp |-> <<99, 10, 98, 10, 98, 97, 10, 10, 97>>,stk |-> <<>>,l |-> 4,sc |-> 2,buf |-> <<10, 10, 98>>,opt |-> [bolneeded |-> TRUE, interactive |-> TRUE, array |-> FALSE, lno |-> TRUE, rejectmode |-> TRUE, bufsize |-> 0],hist |-> <<>>,buf0 |-> <<>>,lineno |-> 1,text |-> <<>>,eof |-> FALSE,bol |-> TRUE,cands |-> <<>>,line0 |-> 1,bol0 |-> TRUE]),
    ([phase |-> "act",rs |-> 1,pfx |-> <<>>,more |-> FALSE,inp |-> <<99, 10, 98, 10, 98, 97, 10, 10, 97>>,stk |-> <<>>,l |-> 5,sc |-> 2,buf |-> <<10, 98>>,opt |-> [bolneeded |-> TRUE, interactive |-> TRUE, array |-> FALSE, lno |-> TRUE, rejectmode |-> TRUE, bufsize |-> 0],hist |-> <<<<"tok", 8, <<10>>>>>>,buf0 |-> <<10, 10, 98>>,lineno |-> 2,text |-> <<10>>,eof |-> FALSE,bol |-> TRUE,cands |-> <<<<10, 1>>>>,line0 |-> 1,bol0 |-> TRUE]),
    ([phase |-> "scan",rs |-> 1,pfx |-> <<>>,more |-> FALSE,inp |-> <<99, 10, 98, 10, 98, 97, 10, 10, 97>>,stk |-> <<>>,l |-> 6,sc |-> 2,buf |-> <<10, 98>>,opt |-> [bolneeded |-> TRUE, interactive |-> TRUE, array |-> FALSE, lno |-> TRUE, rejectmode |-> TRUE, bufsize |-> 0],hist |-> <<<<"tok", 8, <<10>>>>>>,buf0 |-> <<10, 10, 98>>,lineno |-> 2,text |-> <<10>>,eof |-> FALSE,bol |-> TRUE,cands |-> <<>>,line0 |-> 1,bol0 |-> TRUE]),
    ([phase |-> "act",rs |-> 1,pfx |-> <<>>,more |-> FALSE,inp |-> <<99, 10, 98, 10, 98, 97, 10, 10, 97>>,stk |-> <<>>,l |-> 7,sc |-> 2,buf |-> <<98>>,opt |-> [bolneeded |-> TRUE, interactive |-> TRUE, array |-> FALSE, lno |-> TRUE, rejectmode |-> TRUE, bufsize |-> 0],hist |-> <<<<"tok", 8, <<10>>>>, <<"tok", 8, <<10>>>>>>,buf0 |-> <<10, 98>>,lineno |-> 3,text |-> <<10>>,eof |-> FALSE,bol |-> TRUE,cands |-> <<<<10, 1>>>>,line0 |-> 2,bol0 |-> TRUE]),
    ([phase |-> "scan",rs |-> 1,pfx |-> <<>>,more |-> FALSE,inp |-> <<99, 10, 98, 10, 98, 97, 10, 10, 97>>,stk |-> <<>>,l |-> 8,sc |-> 2,buf |-> <<98>>,opt |-> [bolneeded |-> TRUE, interactive |-> TRUE, array |-> FALSE, lno |-> TRUE, rejectmode |-> TRUE, bufsize |-> 0],hist |-> <<<<"tok", 8, <<10>>>>, <<"tok", 8, <<10>>>>>>,buf0 |-> <<10, 98>>,lineno |-> 3,text |-> <<10>>,eof |-> FALSE,bol |-> TRUE,cands |-> <<>>,line0 |-> 2,bol0 |-> TRUE]),
    ([phase |-> "scan",rs |-> 1,pfx |-> <<>>,more |-> FALSE,inp |-> <<10, 98, 97, 10, 10, 97>>,stk |-> <<>>,l |-> 9,sc |-> 2,buf |-> <<98, 99, 10, 98>>,opt |-> [bolneeded |-> TRUE, interactive |-> TRUE, array |-> FALSE, lno |-> TRUE, rejectmode |-> TRUE, bufsize |-> 0],hist |-> <<<<"tok", 8, <<10>>>>, <<"tok", 8, <<10>>>>>>,buf0 |-> <<10, 98>>,lineno |-> 3,text |-> <<10>>,eof |-> FALSE,bol |-> TRUE,cands |-> <<>>,line0 |-> 2,bol0 |-> TRUE]),
    ([phase |-> "act",rs |-> 1,pfx |-> <<>>,more |-> FALSE,inp |-> <<10, 98, 97, 10, 10, 97>>,stk |-> <<>>,l |-> 10,sc |-> 2,buf |-> <<99, 10, 98>>,opt |-> [bolneeded |-> TRUE, interactive |-> TRUE, array |-> FALSE, lno |-> TRUE, rejectmode |-> TRUE, bufsize |-> 0],hist |-> <<<<"tok", 8, <<10>>>>, <<"tok", 8, <<10>>>>, <<"tok", 4, <<98>>>>>>,buf0 |-> <<98, 99, 10, 98>>,lineno |-> 3,text |-> <<98>>,eof |-> FALSE,bol |-> FALSE,cands |-> <<<<9, 1>>, <<10, 1>>>>,line0 |-> 3,bol0 |-> TRUE]),
    ([phase |-> "act",rs |-> 1,pfx |-> <<>>,more |-> FALSE,inp |-> <<10, 98, 97, 10, 10, 97>>,stk |-> <<>>,l |-> 11,sc |-> 2,buf |-> <<99, 10, 98>>,opt |-> [bolneeded |-> TRUE, interactive |-> TRUE, array |-> FALSE, lno |-> TRUE, rejectmode |-> TRUE, bufsize |-> 0],hist |-> <<<<"tok", 8, <<10>>>>, <<"tok", 8, <<10>>>>, <<"tok", 4, <<98>>>>>>,buf0 |-> <<98, 99, 10, 98>>,lineno |-> 3,text |-> <<98>>,eof |-> FALSE,bol |-> FALSE,cands |-> <<<<9, 1>>, <<10, 1>>>>,line0 |-> 3,bol0 |-> TRUE]),
    ([phase |-> "act",rs |-> 1,pfx |-> <<>>,more |-> FALSE,inp |-> <<10, 98, 97, 10, 10, 97>>,stk |-> <<>>,l |-> 12,sc |-> 2,buf |-> <<97, 99, 10, 98>>,opt |-> [bolneeded |-> TRUE, interactive |-> TRUE, array |-> FALSE, lno |-> TRUE, rejectmode |-> TRUE, bufsize |-> 0],hist |-> <<<<"tok", 8, <<10>>>>, <<"tok", 8, <<10>>>>, <<"tok", 4, <<98>>>>, <<"unput", 97>>>>,buf0 |-> <<98, 99, 10, 98>>,lineno |-> 3,text |-> <<98>>,eof |-> FALSE,bol |-> FALSE,cands |-> <<<<9, 1>>, <<10, 1>>>>,line0 |-> 3,bol0 |-> TRUE]),
    ([phase |-> "rej",rs |-> 1,pfx |-> <<>>,more |-> FALSE,inp |-> <<10, 98, 97, 10, 10, 97>>,stk |-> <<>>,l |-> 13,sc |-> 2,buf |-> <<97, 99, 10, 98>>,opt |-> [bolneeded |-> TRUE, interactive |-> TRUE, array |-> FALSE, lno |-> TRUE, rejectmode |-> TRUE, bufsize |-> 0],hist |-> <<<<"tok", 8, <<10>>>>, <<"tok", 8, <<10>>>>, <<"tok", 4, <<98>>>>, <<"unput", 97>>>>,buf0 |-> <<98, 99, 10, 98>>,lineno |-> 3,text |-> <<98>>,eof |-> FALSE,bol |-> FALSE,cands |-> <<<<9, 1>>, <<10, 1>>>>,line0 |-> 3,bol0 |-> TRUE]),
    ([phase |-> "act",rs |-> 1,pfx |-> <<>>,more |-> FALSE,inp |-> <<10, 98, 97, 10, 10, 97>>,stk |-> <<>>,l |-> 14,sc |-> 2,buf |-> <<99, 10, 98>>,opt |-> [bolneeded |-> TRUE, interactive |-> TRUE, array |-> FALSE, lno |-> TRUE, rejectmode |-> TRUE, bufsize |-> 0],hist |-> <<<<"tok", 8, <<10>>>>, <<"tok", 8, <<10>>>>, <<"tok", 4, <<98>>>>, <<"unput", 97>>, <<"tok", 9, <<98>>>>>>,buf0 |-> <<98, 99, 10, 98>>,lineno |-> 3,text |-> <<98>>,eof |-> FALSE,bol |-> FALSE,cands |-> <<<<10, 1>>>>,line0 |-> 3,bol0 |-> TRUE]),
    ([phase |-> "scan",rs |-> 1,pfx |-> <<>>,more |-> FALSE,inp |-> <<10, 98, 97, 10, 10, 97>>,stk |-> <<>>,l |-> 15,sc |-> 2,buf |-> <<99, 10, 98>>,opt |-> [bolneeded |-> TRUE, interactive |-> TRUE, array |-> FALSE, lno |-> TRUE, rejectmode |-> TRUE, bufsize |-> 0],hist |-> <<<<"tok", 8, <<10>>>>, <<"tok", 8, <<10>>>>, <<"tok", 4, <<98>>>>, <<"unput", 97>>, <<"tok", 9, <<98>>>>>>,buf0 |-> <<98, 99, 10, 98>>,lineno |-> 3,text |-> <<98>>,eof |-> FALSE,bol |-> FALSE,cands |-> <<>>,line0 |-> 3,bol0 |-> TRUE])
    >>
----


=============================================================================

---- CONFIG Trace_Scanner_TTrace_1790641554 ----
CONSTANTS
    RSets <- RSetsDef

INVARIANT
    _inv

CHECK_DEADLOCK
    \* CHECK_DEADLOCK off because of PROPERTY or INVARIANT above.
    FALSE

INIT
    _init

NEXT
    _next

CONSTANT
    _TETrace <- _trace

ALIAS
    _expression
=============================================================================
\* Generated on Tue Sep 29 00:25:55 UTC 2026
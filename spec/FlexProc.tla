--------------------------- MODULE FlexProc ---------------------------
(***************************************************************************)
(* flex as a process (properties C16, C18): what an invocation may do.     *)
(*                                                                         *)
(* An observation (one per invocation, recorded by lib/vf/genside.py) is   *)
(*   [group, env, timeout, sig, rc, asan, diag, outs]                      *)
(* outs: Seq([kind, requested, fault, complete, digest]) for the scanner,  *)
(* header, tables and backup files; fault = a write fault was injected on  *)
(* that output; complete = the file exists and passed its completeness     *)
(* test (scanner/header: accepted by the C compiler; tables: well-formed   *)
(* container; backup: present).  diag = number of diagnostic lines on      *)
(* stderr.  digest names the file's contents (#line file names masked).    *)
(*                                                                         *)
(* The properties are invariants over the observation table; TLC walks the *)
(* table (state = index) and reports the first observation violating one.  *)
(***************************************************************************)
EXTENDS Naturals, Sequences, TLC, Json, IOUtils

Obs == ndJsonDeserialize(IOEnv.OBS)

VARIABLE i
Init == i = 1
Next == i < Len(Obs) /\ i' = i + 1
Spec == Init /\ [][Next]_i
O == Obs[i]

\* C16: terminates, never crashes, and exit status 0 only with every requested output complete;
\* a non-zero status comes with at least one diagnostic; a failing write is never absorbed
Terminates == ~O.timeout
NoCrash    == O.sig = 0 /\ ~O.asan
ExitHonest ==
  /\ O.rc = 0 => \A k \in 1..Len(O.outs) : O.outs[k].requested => (O.outs[k].complete /\ ~O.outs[k].fault)
  /\ O.rc # 0 => O.diag > 0
  /\ (\E k \in 1..Len(O.outs) : O.outs[k].requested /\ O.outs[k].fault) => O.rc # 0

\* an input known to exceed a documented internal limit is refused with a diagnostic
LimitReported == O.overlimit => (O.rc # 0 /\ O.diag > 0)

\* C18: observations of one group (same input file, same options) differ only in their environment
\* (allocator perturbation, environment size, working directory, -o file versus -t, sanitizer build):
\* same exit status and byte-identical outputs
Deterministic ==
  \A j \in 1..(i - 1) :
     Obs[j].group = O.group =>
        /\ Obs[j].rc = O.rc
        \* (a run that flex refuses produces no scanner: whatever partial text reached stdout before the
        \* diagnostic is not an output of the generation)
        /\ O.rc = 0 => \A k \in 1..Len(O.outs) : (O.outs[k].requested /\ Obs[j].outs[k].requested) => Obs[j].outs[k].digest = O.outs[k].digest
=============================================================================

SPECIFICATION Spec
INVARIANT GenOK
CHECK_DEADLOCK FALSE

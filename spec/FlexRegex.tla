--------------------------- MODULE FlexRegex ---------------------------
(***************************************************************************)
(* The documented flex pattern language (manual node "Patterns") and its   *)
(* meaning.                                                                *)
(*                                                                         *)
(* Rich abstract syntax (what a user writes), as tagged tuples so that     *)
(* JSON arrays deserialize directly:                                       *)
(*   <<"chr", b>>             one literal byte (however it is spelled)     *)
(*   <<"str", <<b1..bn>>>>    quoted string                                *)
(*   <<"dot">>                .                                            *)
(*   <<"ccl", neg, items>>    [...] / [^...]; items are                    *)
(*        <<"b", c>> | <<"r", lo, hi>> | <<"p", name>> | <<"np", name>>    *)
(*   <<"diff", c1, c2>>       c1{-}c2      <<"union", c1, c2>>  c1{+}c2    *)
(*   <<"cat", r, s>> <<"alt", r, s>> <<"star", r>> <<"plus", r>>           *)
(*   <<"opt", r>> <<"rep", r, n, m>>   (m = -1: no upper bound)            *)
(*   <<"grp", i, s, r>>       (?i-s:r) ...  i, s in {-1 inherit, 0, 1}     *)
(*   <<"ref", k>>             {name}, k indexes the definitions table      *)
(*                                                                         *)
(* Core terms (what a pattern denotes):                                    *)
(*   <<"eps">> | <<"set", S>> (S a set of bytes) | cat | alt | star        *)
(*                                                                         *)
(* Semantics by Antimirov partial derivatives: PD(t, b) is a finite set of *)
(* core terms, so the derivative automaton of a rule set is finite.        *)
(***************************************************************************)
EXTENDS Naturals, Integers, Sequences, FiniteSets

NL == 10

\* POSIX bracket expressions in the C locale (manual: "character class
\* expressions"); these are what isalpha() etc. give for ASCII.
Upper  == 65..90
Lower  == 97..122
Digit  == 48..57
Alpha  == Upper \cup Lower
Alnum  == Alpha \cup Digit
Blank  == {32, 9}
Cntrl  == (0..31) \cup {127}
Graph  == 33..126
PrintC == 32..126
Punct  == Graph \ Alnum
Space  == {32} \cup (9..13)
XDigit == Digit \cup (65..70) \cup (97..102)

PosixSet(name) ==
  CASE name = "alnum"  -> Alnum  [] name = "alpha" -> Alpha
    [] name = "blank"  -> Blank  [] name = "cntrl" -> Cntrl
    [] name = "digit"  -> Digit  [] name = "graph" -> Graph
    [] name = "lower"  -> Lower  [] name = "print" -> PrintC
    [] name = "punct"  -> Punct  [] name = "space" -> Space
    [] name = "upper"  -> Upper  [] name = "xdigit" -> XDigit

\* both cases of every letter in S ("-i" / (?i:) : "a" matches "A")
Fold(S) == S \cup {c + 32 : c \in S \cap Upper} \cup {c - 32 : c \in S \cap Lower}
FoldIf(ci, S) == IF ci THEN Fold(S) ELSE S

\* flags: [ci |-> BOOLEAN, dotall |-> BOOLEAN]; sigma: the scanner's alphabet
\* (0..255 for 8-bit, 0..127 for 7-bit scanners)
Tri(old, v) == IF v = -1 THEN old ELSE v = 1

ItemSet(it, fl, sigma) ==
  CASE it[1] = "b"  -> FoldIf(fl.ci, {it[2]})
    [] it[1] = "r"  -> FoldIf(fl.ci, it[2]..it[3])
    [] it[1] = "p"  -> FoldIf(fl.ci, PosixSet(it[2]) \cap sigma)
    [] it[1] = "np" -> sigma \ PosixSet(it[2])

RECURSIVE CclSet(_, _, _)
CclSet(c, fl, sigma) ==
  CASE c[1] = "ccl" ->
         LET pos == UNION {ItemSet(c[3][k], fl, sigma) : k \in 1..Len(c[3])}
         IN  IF c[2] = 1 THEN sigma \ pos ELSE pos \cap sigma
    [] c[1] = "diff"  -> CclSet(c[2], fl, sigma) \ CclSet(c[3], fl, sigma)
    [] c[1] = "union" -> CclSet(c[2], fl, sigma) \cup CclSet(c[3], fl, sigma)

Eps == <<"eps">>
Cat(a, b) == IF a = Eps THEN b ELSE IF b = Eps THEN a ELSE <<"cat", a, b>>

RECURSIVE Power(_, _)
Power(t, n) == IF n = 0 THEN Eps ELSE Cat(t, Power(t, n - 1))
\* t{0,k}: up to k optional copies
RECURSIVE UpTo(_, _)
UpTo(t, k) == IF k = 0 THEN Eps ELSE <<"alt", Eps, Cat(t, UpTo(t, k - 1))>>

RECURSIVE Core(_, _, _, _)
Core(a, fl, sigma, defs) ==
  CASE a[1] = "chr"  -> <<"set", FoldIf(fl.ci, {a[2]})>>
    [] a[1] = "str"  -> IF Len(a[2]) = 0 THEN Eps
                        ELSE Cat(<<"set", FoldIf(fl.ci, {a[2][1]})>>,
                                 Core(<<"str", Tail(a[2])>>, fl, sigma, defs))
    [] a[1] = "dot"  -> <<"set", IF fl.dotall THEN sigma ELSE sigma \ {NL}>>
    [] a[1] \in {"ccl", "diff", "union"} -> <<"set", CclSet(a, fl, sigma)>>
    [] a[1] = "cat"  -> Cat(Core(a[2], fl, sigma, defs), Core(a[3], fl, sigma, defs))
    [] a[1] = "alt"  -> <<"alt", Core(a[2], fl, sigma, defs), Core(a[3], fl, sigma, defs)>>
    [] a[1] = "star" -> <<"star", Core(a[2], fl, sigma, defs)>>
    [] a[1] = "plus" -> LET t == Core(a[2], fl, sigma, defs) IN Cat(t, <<"star", t>>)
    [] a[1] = "opt"  -> <<"alt", Core(a[2], fl, sigma, defs), Eps>>
    [] a[1] = "rep"  -> LET t == Core(a[2], fl, sigma, defs) IN
                        IF a[4] = -1 THEN Cat(Power(t, a[3]), <<"star", t>>)
                        ELSE Cat(Power(t, a[3]), UpTo(t, a[4] - a[3]))
    [] a[1] = "grp"  -> Core(a[4], [ci |-> Tri(fl.ci, a[2]), dotall |-> Tri(fl.dotall, a[3])], sigma, defs)
    [] a[1] = "ref"  -> Core(defs[a[2]], fl, sigma, defs)

-----------------------------------------------------------------------------
\* Meaning of core terms

RECURSIVE Nullable(_)
Nullable(t) ==
  CASE t[1] = "eps"  -> TRUE
    [] t[1] = "set"  -> FALSE
    [] t[1] = "cat"  -> Nullable(t[2]) /\ Nullable(t[3])
    [] t[1] = "alt"  -> Nullable(t[2]) \/ Nullable(t[3])
    [] t[1] = "star" -> TRUE

RECURSIVE PD(_, _)
PD(t, c) ==
  CASE t[1] = "eps"  -> {}
    [] t[1] = "set"  -> IF c \in t[2] THEN {Eps} ELSE {}
    [] t[1] = "cat"  -> {Cat(d, t[3]) : d \in PD(t[2], c)}
                          \cup (IF Nullable(t[2]) THEN PD(t[3], c) ELSE {})
    [] t[1] = "alt"  -> PD(t[2], c) \cup PD(t[3], c)
    [] t[1] = "star" -> {Cat(d, t) : d \in PD(t[2], c)}

\* can t consume at least one more byte?
RECURSIVE HasFirst(_)
HasFirst(t) ==
  CASE t[1] = "eps"  -> FALSE
    [] t[1] = "set"  -> t[2] # {}
    [] t[1] = "cat"  -> HasFirst(t[2]) \/ (Nullable(t[2]) /\ HasFirst(t[3]))
    [] t[1] = "alt"  -> HasFirst(t[2]) \/ HasFirst(t[3])
    [] t[1] = "star" -> HasFirst(t[2])

\* all byte sets mentioned by a term (used to justify exploring one
\* representative per equivalence class)
RECURSIVE Sets(_)
Sets(t) ==
  CASE t[1] = "eps"  -> {}
    [] t[1] = "set"  -> {t[2]}
    [] t[1] = "cat"  -> Sets(t[2]) \cup Sets(t[3])
    [] t[1] = "alt"  -> Sets(t[2]) \cup Sets(t[3])
    [] t[1] = "star" -> Sets(t[2])

\* declarative membership: does word w (a sequence of bytes) belong to L(t)?
RECURSIVE MatchesSet(_, _)
MatchesSet(S, w) == IF w = <<>> THEN \E t \in S : Nullable(t)
                    ELSE MatchesSet(UNION {PD(t, w[1]) : t \in S}, Tail(w))
Matches(t, w) == MatchesSet({t}, w)

\* minimal and maximal length of words (-1: unbounded); used for "fixed length"
RECURSIVE MinLen(_)
MinLen(t) ==
  CASE t[1] = "eps"  -> 0
    [] t[1] = "set"  -> 1
    [] t[1] = "cat"  -> MinLen(t[2]) + MinLen(t[3])
    [] t[1] = "alt"  -> IF MinLen(t[2]) < MinLen(t[3]) THEN MinLen(t[2]) ELSE MinLen(t[3])
    [] t[1] = "star" -> 0
RECURSIVE MaxLen(_)
MaxLen(t) ==
  CASE t[1] = "eps"  -> 0
    [] t[1] = "set"  -> 1
    [] t[1] = "cat"  -> IF MaxLen(t[2]) = -1 \/ MaxLen(t[3]) = -1 THEN -1 ELSE MaxLen(t[2]) + MaxLen(t[3])
    [] t[1] = "alt"  -> IF MaxLen(t[2]) = -1 \/ MaxLen(t[3]) = -1 THEN -1
                        ELSE IF MaxLen(t[2]) > MaxLen(t[3]) THEN MaxLen(t[2]) ELSE MaxLen(t[3])
    [] t[1] = "star" -> IF MaxLen(t[2]) = 0 THEN 0 ELSE -1
FixedLen(t) == MaxLen(t) # -1 /\ MinLen(t) = MaxLen(t)
=============================================================================

SPECIFICATION TSpec
CONSTANT RSets <- RSetsDef
POSTCONDITION Accepted
CHECK_DEADLOCK FALSE

--------------------------- MODULE FlexRules ---------------------------
(***************************************************************************)
(* Rule sets: which rules are active where, what "the best match" is, and  *)
(* the reference automaton (item states) of a whole rule set.              *)
(*                                                                         *)
(* A source rule set (JSON) is                                             *)
(*   [ci, sevenbit, defs, scs : Seq([name, excl]),                         *)
(*    rules : Seq([head, trail, bol, scs, var]),                           *)
(*    eofs  : Seq([scs])]      (<<EOF>> rules, in file order; they do not  *)
(*                              take rule numbers)                         *)
(* scs of a rule: <<>> = no start condition given, <<0>> = <*>, otherwise  *)
(* 1-based indices into the declaration order (1 = INITIAL).               *)
(* trail = <<"none">> when the rule has no trailing context ("r$" is given *)
(* as trail "\n", as the manual defines it).                               *)
(* var: the generator treats the rule as variable-length trailing context  *)
(* (taken from the artifact, see DESIGN.md, C06).                          *)
(*                                                                         *)
(* Compile() resolves the rich syntax to core terms and appends the        *)
(* default rule (any single byte, active everywhere, lowest priority).     *)
(***************************************************************************)
EXTENDS FlexRegex

None == <<"none">>

Sigma(src) == IF src.sevenbit THEN 0..127 ELSE 0..255

CompileRule(src, r) ==
  LET fl == [ci |-> src.ci, dotall |-> FALSE] IN
  [ head  |-> Core(r.head, fl, Sigma(src), src.defs),
    trail |-> IF r.trail = None THEN None ELSE Core(r.trail, fl, Sigma(src), src.defs),
    bol   |-> r.bol, scs |-> r.scs, var |-> r.var ]

DefaultRule(src) ==
  [ head |-> <<"set", Sigma(src)>>, trail |-> None, bol |-> FALSE, scs |-> <<0>>, var |-> FALSE ]

Compile(src) ==
  [ rules |-> [k \in 1..Len(src.rules) |-> CompileRule(src, src.rules[k])] \o <<DefaultRule(src)>>,
    eofs  |-> src.eofs,
    nsc   |-> Len(src.scs),
    excl  |-> [k \in 1..Len(src.scs) |-> src.scs[k].excl],
    sigma |-> Sigma(src) ]

-----------------------------------------------------------------------------
\* Activation (manual node "Start Conditions")
Active(R, k, sc) ==
  \/ R.rules[k].scs = <<>> /\ ~R.excl[sc]
  \/ \E j \in 1..Len(R.rules[k].scs) : R.rules[k].scs[j] \in {0, sc}

\* <<EOF>> rule chosen in condition sc: the first one naming sc (or <*>, or
\* unqualified - which by the manual covers every condition lacking one);
\* 0 = default EOF action
EofActive(R, k, sc) ==
  \/ R.eofs[k].scs = <<>>
  \/ \E j \in 1..Len(R.eofs[k].scs) : R.eofs[k].scs[j] \in {0, sc}
EofRule(R, sc) ==
  LET c == {k \in 1..Len(R.eofs) : EofActive(R, k, sc)} IN
  IF c = {} THEN 0 ELSE CHOOSE k \in c : \A j \in c : k <= j

HasTrail(R, k) == R.rules[k].trail # None

-----------------------------------------------------------------------------
\* Item states.  An item <<k, ph, t>> says: rule k is being matched, t is
\* what remains of its head (ph = "H") or of its whole remaining pattern
\* (ph = "T": trail of an r/s rule, or the pattern of a rule without '/').
Close(R, S) ==
  S \cup {<<p[1], "T", R.rules[p[1]].trail>> : p \in {q \in S : q[2] = "H" /\ Nullable(q[3])}}

Start(R, sc, bol) ==
  Close(R, {<<k, IF HasTrail(R, k) THEN "H" ELSE "T", R.rules[k].head>> :
              k \in {j \in 1..Len(R.rules) : Active(R, j, sc) /\ (R.rules[j].bol => bol)}})

StepI(R, S, c) ==
  Close(R, UNION {{<<p[1], p[2], d>> : d \in PD(p[3], c)} : p \in S})

\* rules completely matched in S
Full(S) == {p[1] : p \in {q \in S : q[2] = "T" /\ Nullable(q[3])}}
\* rules whose head (of r/s) is completely matched in S
HeadDone(S) == {p[1] : p \in {q \in S : q[2] = "H" /\ Nullable(q[3])}}

Min(S) == CHOOSE x \in S : \A y \in S : x <= y
First(S) == IF Full(S) = {} THEN 0 ELSE Min(Full(S))

NoOut(S) == \A p \in S : ~HasFirst(p[3])

\* every byte set mentioned by the rule set
AllSets(R) ==
  UNION {Sets(R.rules[k].head) \cup (IF HasTrail(R, k) THEN Sets(R.rules[k].trail) ELSE {})
           : k \in 1..Len(R.rules)}

-----------------------------------------------------------------------------
\* All matches of prefixes of w from item state S: set of <<rule, length>>,
\* plus whether the scan reached a point where no longer match is possible
\* before running out of w.
RECURSIVE Scan(_, _, _, _, _)
Scan(R, S, w, j, acc) ==
  LET acc2 == IF j > 0 THEN acc \cup {<<r, j>> : r \in Full(S)} ELSE acc IN
  IF S = {} \/ NoOut(S) THEN <<acc2, TRUE, j>>
  ELSE IF j = Len(w) THEN <<acc2, FALSE, j>>
  ELSE Scan(R, StepI(R, S, w[j + 1]), w, j + 1, acc2)

\* REJECT order: decreasing length, then rule position
Better(a, b) == a[2] > b[2] \/ (a[2] = b[2] /\ a[1] < b[1])

\* valid head lengths h for rule k matching the first mlen bytes of w
HeadLens(R, k, w, mlen) ==
  IF ~HasTrail(R, k) THEN {mlen}
  ELSE {h \in 0..mlen : /\ Matches(R.rules[k].head, SubSeq(w, 1, h))
                        /\ Matches(R.rules[k].trail, SubSeq(w, h + 1, mlen))}
=============================================================================

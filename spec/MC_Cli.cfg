SPECIFICATION Spec
INVARIANT Effect
INVARIANT SameEitherWay
INVARIANT Covered
CHECK_DEADLOCK FALSE

---------------------------- MODULE FlexBuffer ----------------------------
(***************************************************************************)
(* The concrete input buffer of a generated scanner (struct                *)
(* yy_buffer_state: yy_ch_buf, yy_buf_size, yy_n_chars; the scanner's      *)
(* yy_c_buf_p, yytext_ptr) and what yy_get_next_buffer() / yyunput() do to *)
(* it.  FlexScanner.tla abstracts a buffer to "the text still pending";    *)
(* this module is the level below: it shows that the move / grow / read /  *)
(* re-terminate cycle implements that abstraction (Conservation), never    *)
(* touches a cell outside the allocation (Bounds), keeps the two           *)
(* end-of-buffer sentinels in place (Sentinels), and it defines the        *)
(* geometry functions (Grow, Req) that trace validation compares with the  *)
(* requests the real scanner makes (Trace_Scanner!TRead: fields keep, cap, *)
(* req of a Read event).                                                   *)
(*                                                                         *)
(* One action per step of the code:                                        *)
(*   Scan     the match loop moves yy_c_buf_p over a data byte             *)
(*   Accept   a token (possibly shorter than what was scanned: back-up)    *)
(*   Refill   yy_get_next_buffer(): keep the partial token, grow, read     *)
(*   Unput    yyunput(c) between tokens, with the shift to the top of the  *)
(*            buffer when there is no room in front                        *)
(***************************************************************************)
EXTENDS Naturals, Sequences, FiniteSets, FlexGeom

CONSTANTS Src,        \* the input, a sequence of bytes
          Cap0,       \* initial yy_buf_size (>= 1)
          ReadMax,    \* YY_READ_BUF_SIZE
          Owned,      \* yy_is_our_buffer
          RejectMode, \* scanner uses REJECT: the buffer is never enlarged
          MaxUnput    \* bound on the number of yyunput() calls explored

EOB == 0              \* YY_END_OF_BUFFER_CHAR

\* (the geometry functions Grow, NeedsGrowth, Req are in FlexGeom.tla, shared with trace validation)

-----------------------------------------------------------------------------
VARIABLES ch,      \* yy_ch_buf: a function on 0..cap+1
          cap,     \* yy_buf_size
          n,       \* yy_n_chars
          p,       \* yy_c_buf_p - yy_ch_buf
          t,       \* yytext_ptr - yy_ch_buf
          status,  \* "new" | "normal" | "eofpending" | "done" | "fatal"
          src,     \* what the source has not yet delivered
          out,     \* text consumed so far (tokens, in order)
          edits,   \* the stream as edited by yyunput() (ghost)
          nunput,
          must     \* EOB_ACT_LAST_MATCH was returned: the text scanned so far has to be matched now
vars == <<ch, cap, n, p, t, status, src, out, edits, nunput, must>>

Junk == 999            \* an uninitialised cell
Blank(c) == [i \in 0..(c + 1) |-> Junk]

Init == /\ cap = Cap0 /\ ch = [Blank(Cap0) EXCEPT ![0] = EOB, ![1] = EOB]
        /\ n = 0 /\ p = 0 /\ t = 0 /\ status = "new" /\ src = Src /\ out = <<>> /\ edits = Src /\ nunput = 0 /\ must = FALSE

Live == status \in {"new", "normal", "eofpending"}
Data(i, j) == [k \in 1..(j - i) |-> ch[i + k - 1]]      \* the cells i .. j-1 as a sequence

\* the match loop reads the byte at p and moves on (p < n: a data byte, whatever its value)
Scan == /\ Live /\ ~must /\ p < n /\ p' = p + 1
        /\ UNCHANGED <<ch, cap, n, t, status, src, out, edits, nunput, must>>

\* the action of the longest match is entered: k >= 1 bytes from the token start are consumed
Accept(k) == /\ Live /\ k >= 1 /\ t + k <= p
             /\ out' = out \o Data(t, t + k) /\ t' = t + k /\ p' = t + k /\ must' = FALSE
             /\ UNCHANGED <<ch, cap, n, status, src, edits, nunput>>

\* yy_get_next_buffer(), reached when the match loop reads the sentinel at position n
Refill ==
  /\ Live /\ ~must /\ p = n
  /\ LET keep == n - t IN      \* number_to_move = yy_c_buf_p - yytext_ptr - 1, with yy_c_buf_p one past the sentinel
     IF status = "eofpending"
     THEN \* no read: force the end of input
          IF keep = 0 THEN /\ status' = "done" /\ UNCHANGED <<ch, cap, n, p, t, src, out, edits, nunput, must>>
          ELSE /\ ch' = [i \in 0..(cap + 1) |-> IF i < keep THEN ch[t + i] ELSE IF i \in {keep, keep + 1} THEN EOB ELSE ch[i]]
               /\ n' = keep /\ t' = 0 /\ p' = keep /\ must' = TRUE /\ UNCHANGED <<cap, status, src, out, edits, nunput>>
     ELSE IF NeedsGrowth(cap, keep) /\ (RejectMode \/ ~Owned)
     THEN /\ status' = "fatal" /\ UNCHANGED <<ch, cap, n, p, t, src, out, edits, nunput, must>>
     ELSE LET c2 == Grow(cap, keep)
              rq == Req(c2, keep, ReadMax) IN
          \E got \in 0..Min(rq, Len(src)) :
            /\ (got = 0 => src = <<>>)           \* a source delivers at least one byte while it has any
            /\ cap' = c2
            /\ ch' = [i \in 0..(c2 + 1) |->
                        IF i < keep THEN ch[t + i]
                        ELSE IF i < keep + got THEN src[i - keep + 1]
                        ELSE IF i \in {keep + got, keep + got + 1} THEN EOB
                        ELSE IF i <= cap + 1 THEN ch[i] ELSE Junk]
            /\ src' = SubSeq(src, got + 1, Len(src))
            /\ n' = keep + got /\ t' = 0 /\ p' = keep
            /\ status' = IF got > 0 THEN "normal" ELSE IF keep = 0 THEN "done" ELSE "eofpending"
            /\ must' = (got = 0 /\ keep > 0)
            /\ UNCHANGED <<out, edits, nunput>>

\* yyunput(c) between two tokens (t = p): when fewer than two cells are free in front of the text, the whole
\* contents (with both sentinels) move to the top of the buffer first
Unput(c) ==
  /\ Live /\ ~must /\ t = p /\ nunput < MaxUnput /\ status # "new"
  /\ LET shift == p < 2
         d == IF shift THEN (cap + 2) - (n + 2) ELSE 0      \* distance moved
         p2 == p + d
     IN IF shift /\ p2 < 2
        THEN /\ status' = "fatal" /\ nunput' = nunput + 1 /\ UNCHANGED <<ch, cap, n, p, t, src, out, edits, must>>   \* push-back overflow
        ELSE /\ ch' = [i \in 0..(cap + 1) |->
                         IF i = p2 - 1 THEN c
                         ELSE IF shift /\ i >= d THEN ch[i - d] ELSE ch[i]]
             /\ n' = IF shift THEN cap ELSE n
             /\ p' = p2 - 1 /\ t' = p2 - 1
             /\ edits' = SubSeq(edits, 1, Len(out)) \o <<c>> \o SubSeq(edits, Len(out) + 1, Len(edits))
             /\ nunput' = nunput + 1
             /\ UNCHANGED <<cap, status, src, out, must>>

Next == Scan \/ (\E k \in 1..(Cap0 * 4 + 2) : Accept(k)) \/ Refill \/ (\E c \in {65} : Unput(c))
Terminal == status \in {"done", "fatal"} /\ UNCHANGED vars
Spec == Init /\ [][Next \/ Terminal]_vars /\ WF_vars(Next)

-----------------------------------------------------------------------------
\* the abstraction FlexScanner works with: what is still pending in this buffer
Pending == Data(t, n)

Bounds == /\ DOMAIN ch = 0..(cap + 1)
          /\ 0 <= t /\ t <= p /\ p <= n /\ n <= cap
Sentinels == Live => ch[n] = EOB /\ ch[n + 1] = EOB
Conservation == status # "fatal" => out \o Pending \o src = edits
\* nothing uninitialised is ever scanned or delivered
NoJunk == \A i \in t..(n - 1) : ch[i] # Junk
\* the buffer only grows when it has to, and only if flex owns it and REJECT is not in use
GrowthOK == [][cap' # cap => (cap' > cap /\ Owned /\ ~RejectMode /\ NeedsGrowth(cap, n - t))]_vars
\* every run ends, and a buffer flex owns delivers the whole input whatever the token lengths ("grows as needed")
Terminates == <>(status \in {"done", "fatal"})
DoneOK == status = "done" => (out = edits /\ src = <<>>)
\* the documented fatal errors are the only way not to get there
OnlyDocumentedFatal == status = "fatal" => (RejectMode \/ ~Owned \/ nunput > 0)
=============================================================================

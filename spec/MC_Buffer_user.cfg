SPECIFICATION Spec
CONSTANT Src <- SrcDef
CONSTANTS Cap0 = 3
          ReadMax = 3
          Owned = FALSE
          RejectMode = FALSE
          MaxUnput = 1
INVARIANT Bounds
INVARIANT Sentinels
INVARIANT Conservation
INVARIANT NoJunk
INVARIANT DoneOK
INVARIANT OnlyDocumentedFatal
PROPERTY GrowthOK
PROPERTY Refines
PROPERTY Terminates
CHECK_DEADLOCK FALSE

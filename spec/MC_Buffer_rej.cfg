SPECIFICATION Spec
CONSTANT Src <- SrcDef
CONSTANTS Cap0 = 2
          ReadMax = 3
          Owned = TRUE
          RejectMode = TRUE
          MaxUnput = 0
INVARIANT Bounds
INVARIANT Sentinels
INVARIANT Conservation
INVARIANT NoJunk
INVARIANT DoneOK
INVARIANT OnlyDocumentedFatal
PROPERTY GrowthOK
PROPERTY Refines
PROPERTY Terminates
CHECK_DEADLOCK FALSE

SPECIFICATION Spec
INVARIANT Deterministic
CHECK_DEADLOCK FALSE

--------------------------- MODULE MC_Scanner ---------------------------
(***************************************************************************)
(* Model checking of the abstract run-time machine FlexScanner itself.     *)
(*                                                                         *)
(* A small rule set (anchors, trailing context, an exclusive start         *)
(* condition, overlapping rules that force back-up, REJECT candidates) is  *)
(* scanned over every input of length <= InLen over {a, b, newline}, with *)
(* every read schedule (1 or 2 bytes per read) and every history of at     *)
(* most MaxOps edit / start-condition / buffer calls.  The properties are  *)
(* stated here independently of the action definitions (ghost variables    *)
(* record what was consumed), so that TLC checks the machine against       *)
(* them rather than against itself:                                        *)
(*   Conservation  - every byte is consumed exactly once and in order,     *)
(*                   unless an action says otherwise (C08, C11)            *)
(*   LinenoExact   - yylineno = 1 (or what the user set) + newlines consumed *)
(*                   since - newlines unput                                *)
(*   LongestFirst  - the token is the longest match of the first rule (C01)*)
(*   ScOnly        - the start condition changes only by begin/push/pop    *)
(*   StackLIFO     - push/pop is a stack                                   *)
(*   EofOnlyAtEnd  - end-of-input processing only when nothing is pending  *)
(*   Isolation     - an operation leaves the other buffers alone           *)
(***************************************************************************)
EXTENDS FlexScanner

CONSTANTS InLen, MaxOps

A == 97  B == 98
Lit(c) == <<"set", {c}>>
Plus(t) == <<"cat", t, <<"star", t>>>>
AnyByte == <<"set", 0..255>>
\* 1: ab   2: a+   3: a/b   4: \n   5: ^b   6: <X>b+   7: <*>aab   8: default
TheRules == <<
  [head |-> <<"cat", Lit(A), Lit(B)>>, trail |-> None, bol |-> FALSE, scs |-> <<>>, var |-> FALSE],
  [head |-> Plus(Lit(A)), trail |-> None, bol |-> FALSE, scs |-> <<>>, var |-> FALSE],
  [head |-> Lit(A), trail |-> Lit(B), bol |-> FALSE, scs |-> <<>>, var |-> FALSE],
  [head |-> Lit(NL), trail |-> None, bol |-> FALSE, scs |-> <<0>>, var |-> FALSE],
  [head |-> Lit(B), trail |-> None, bol |-> TRUE, scs |-> <<>>, var |-> FALSE],
  [head |-> Plus(Lit(B)), trail |-> None, bol |-> FALSE, scs |-> <<2>>, var |-> FALSE],
  [head |-> <<"cat", Lit(A), <<"cat", Lit(A), Lit(B)>>>>, trail |-> None, bol |-> FALSE, scs |-> <<0>>, var |-> FALSE],
  [head |-> AnyByte, trail |-> None, bol |-> FALSE, scs |-> <<0>>, var |-> FALSE] >>
RSetsDef == << [rules |-> TheRules, eofs |-> << [scs |-> <<2>>] >>, nsc |-> 2, excl |-> <<FALSE, TRUE>>, sigma |-> 0..255] >>

Sym == {A, B, NL}
RECURSIVE Strings(_)
Strings(n) == IF n = 0 THEN {<<>>} ELSE Strings(n - 1) \cup {Append(s, c) : s \in {t \in Strings(n - 1) : Len(t) = n - 1}, c \in Sym}
Inputs == Strings(InLen)

VARIABLES orig,    \* the byte stream as edited so far (yyunput inserts)
          done,    \* bytes consumed for good (tokens whose action has ended, yyinput)
          eatenb,  \* bytes taken by yyinput in the current action
          unl,     \* newlines pushed back by yyunput
          lbase,   \* the line number the user last set, less the newlines consumed (net) until then (initially 1)
          nops,    \* operations made so far (bound)
          last     \* name of the last action
gvars == <<orig, done, eatenb, unl, lbase, nops, last>>
allvars == <<svars, gvars>>

Opt(inter, rej) == [interactive |-> inter, array |-> FALSE, lno |-> TRUE, bolneeded |-> TRUE, rejectmode |-> rej, bufsize |-> 0,
                    strictread |-> TRUE, reentrant |-> FALSE, userwrap |-> FALSE, failalloc |-> 0, stdio |-> FALSE, yylmax |-> 8192]

MInit == /\ SInit /\ orig = <<>> /\ done = <<>> /\ eatenb = <<>> /\ unl = 0 /\ lbase = 1 /\ nops = 0 /\ last = "init"

G(name) == last' = name /\ nops' = nops + 1
Keep == UNCHANGED <<orig, done, eatenb, unl, lbase>>
New(t) == SubSeq(t, Len(pfx) + 1, Len(t))      \* the part of yytext matched by the current token

MStart == /\ phase = "done" /\ nops = 0
          /\ \E w \in Inputs, inter \in BOOLEAN : Reset(1, <<w>>, Opt(inter, TRUE)) /\ orig' = w
          /\ done' = <<>> /\ eatenb' = <<>> /\ unl' = 0 /\ lbase' = 1 /\ last' = "Reset" /\ nops' = 1
MCall == Call /\ Keep /\ last' = "Call" /\ nops' = nops
MRead == \E k \in 0..2 : Read(k) /\ Keep /\ last' = "Read" /\ nops' = nops
MMatch == \E r \in 1..NRules, h \in 0..4 : Match(r, h) /\ last' = "Match" /\ nops' = nops
            /\ (IF r = NRules THEN done' = done \o SubSeq(buf, 1, h) ELSE done' = done)
            /\ UNCHANGED <<orig, eatenb, unl, lbase>>
MReject == nops < MaxOps /\ Reject /\ Keep /\ G("Reject")
MAgain == \E r \in 1..NRules, h \in 0..4 : MatchAgain(r, h) /\ last' = "MatchAgain" /\ nops' = nops
            /\ (IF r = NRules THEN done' = done \o SubSeq(buf0, 1, h) ELSE done' = done)
            /\ UNCHANGED <<orig, eatenb, unl, lbase>>
MEnd == /\ (ActEnd \/ Return) /\ last' = "End" /\ nops' = nops
        /\ done' = done \o New(text) \o eatenb /\ eatenb' = <<>> /\ UNCHANGED <<orig, unl, lbase>>
MLess == nops < MaxOps /\ eatenb = <<>> /\ \E n \in 0..3 : n >= Len(pfx) /\ Less(n) /\ Keep /\ G("Less")
MMore == nops < MaxOps /\ ~more /\ More /\ Keep /\ G("More")
MUnput == /\ nops < MaxOps /\ \E c \in {A, NL} : /\ Unput(c) /\ G("Unput")
                                                   /\ orig' = SubSeq(orig, 1, Len(done) + Len(New(text)) + Len(eatenb)) \o <<c>>
                                                              \o SubSeq(orig, Len(done) + Len(New(text)) + Len(eatenb) + 1, Len(orig))
                                                   /\ unl' = unl + (IF c = NL THEN 1 ELSE 0)
          /\ UNCHANGED <<done, eatenb, lbase>>
MInput == /\ nops < MaxOps /\ buf # <<>> /\ Input(buf[1]) /\ eatenb' = Append(eatenb, buf[1]) /\ G("Input") /\ UNCHANGED <<orig, done, unl, lbase>>
MBegin == nops < MaxOps /\ phase = "act" /\ \E s \in 0..1 : Begin(s) /\ Keep /\ G("Begin")
MPush == nops < MaxOps /\ phase = "act" /\ \E s \in 0..1 : Push(s) /\ Keep /\ G("Push")
MPop == nops < MaxOps /\ phase = "act" /\ Pop /\ Keep /\ G("Pop")
\* the user sets the line number in an action; counting goes on from there (stated with the ghost variables only)
MSetLineno == /\ nops < MaxOps /\ phase = "act" /\ SetLineno(7) /\ G("SetLineno")
              /\ lbase' = 7 - (CountNL(done \o New(text) \o eatenb) - unl)
              /\ UNCHANGED <<orig, done, eatenb, unl>>
MEof == \E k \in 0..1 : AtEof(k) /\ Keep /\ last' = "Eof" /\ nops' = nops
\* a second, in-memory buffer: scanned in the middle of the file; then back to the first one
MScan == nops < MaxOps /\ phase = "act" /\ cur = 1 /\ ScanMem(2, <<B, A>>) /\ G("ScanMem")
         /\ orig' = SubSeq(orig, 1, Len(done) + Len(New(text)) + Len(eatenb)) \o <<B, A>> \o SubSeq(orig, Len(done) + Len(New(text)) + Len(eatenb) + 1, Len(orig))
         /\ UNCHANGED <<done, eatenb, unl, lbase>>
MPopBuf == phase \in {"act", "done"} /\ cur = 2 /\ buf = <<>> /\ SwitchTo(1) /\ Keep /\ last' = "SwitchBack" /\ nops' = nops

MNext == MStart \/ MCall \/ MRead \/ MMatch \/ MReject \/ MAgain \/ MEnd \/ MLess \/ MMore \/ MUnput \/ MInput
         \/ MSetLineno \/ MBegin \/ MPush \/ MPop \/ MEof \/ MScan \/ MPopBuf
MSpec == MInit /\ [][MNext]_allvars

MView == <<svars, orig, done, eatenb, unl, lbase, last>>      \* nops is a bound, hist a log

-----------------------------------------------------------------------------
\* the unread rest of the stream: pending text of the current buffer, then what the buffers
\* below it still hold, then the file
Below == IF cur = 2 /\ 1 \in DOMAIN saved THEN saved[1].buf ELSE <<>>
Pending == buf \o Below \o (IF Len(files) >= 1 THEN files[1] ELSE <<>>)
CurNew == IF phase \in {"act", "rej"} THEN New(text) ELSE <<>>

Conservation ==
  (phase \notin {"fatal"} /\ rs = 1 /\ last # "init") =>
     done \o CurNew \o eatenb \o Pending = orig

LinenoExact ==
  (last # "init" /\ phase # "fatal") => lineno = lbase + CountNL(done \o CurNew \o eatenb) - unl

\* declarative: the selected text is a longest match, of the first rule that has one
Longest(w, b, r, n) ==
  /\ Active(R, r, sc + 1) /\ (R.rules[r].bol => b)
  /\ \A r2 \in 1..NRules, n2 \in 1..Len(w) :
        (Active(R, r2, sc + 1) /\ (R.rules[r2].bol => b) /\
         \E h \in 0..n2 : Matches(R.rules[r2].head, SubSeq(w, 1, h)) /\
                          (IF R.rules[r2].trail = None THEN h = n2 ELSE Matches(R.rules[r2].trail, SubSeq(w, h + 1, n2))))
        => (n2 < n \/ (n2 = n /\ r2 >= r))
LongestFirst ==
  last = "Match" =>
     LET r == hist[Len(hist)][2]
         used == Len(buf0) - Len(buf) IN      \* bytes of the stream the token took
     \E n \in 1..Len(buf0) : /\ Longest(buf0, bol0, r, n)
                             /\ IF R.rules[r].trail = None THEN used = n ELSE used <= n

ScOnly == [][sc' # sc => last' \in {"Begin", "Push", "Pop", "Reset"}]_allvars
StackLIFO == [][(last' = "Push") => (stk' = Append(stk, sc)) /\ ((last' = "Pop") => (stk = Append(stk', sc')))]_allvars
\* (per buffer: the in-memory buffer reaches its own end while the file buffer still holds text)
EofOnlyAtEnd == last = "Eof" => (buf = <<>> /\ (cur = 1 => orig = done))
Isolation == [][(last' \in {"Less", "More", "Unput", "Input", "Match", "MatchAgain", "Read", "End", "Begin", "Push", "Pop", "SetLineno"}) => saved' = saved]_allvars

Bound == nops <= MaxOps
=============================================================================

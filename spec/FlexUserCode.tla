--------------------------- MODULE FlexUserCode ---------------------------
(***************************************************************************)
(* User code in a specification file (property C20).                       *)
(*                                                                         *)
(* A specification is a sequence of regions; flex must hand the text of    *)
(* every user-code region to the compiler byte for byte, whatever it       *)
(* contains, and tell the compiler (by #line) which input line it is on.   *)
(*                                                                         *)
(* Mode "gen" (GEN = "1"): TLC enumerates the scenarios - a region kind     *)
(* with a sequence of at most two hostile tokens placed in it - and prints *)
(* them; lib/vf/usercode.py lays each one out as a specification, runs     *)
(* flex and the C compiler, runs the program (which prints the text it was *)
(* compiled with and the __LINE__ it saw there) and records observations.  *)
(* Mode "obs": TLC walks the observation table and checks the properties.  *)
(***************************************************************************)
EXTENDS Naturals, Sequences, FiniteSets, TLC, Json, IOUtils, SequencesExt

Regions == {"top", "sect1block", "sect1indent", "sect2decl", "action", "actionbrace", "actionbar", "actiondollarbar", "sect3", "topheader"}
\* (topheader: the %top text as a second translation unit gets it through the generated header file)
\* (actiondollarbar: the action of a rule ending in $ that follows a rule with a | action)
\* what m4, the skeleton and flex's own scanner treat specially
Tokens == {"[[", "]]", "]]]", "[[[", "m4_define([[x]],[[y]])", "m4_dnl", "M4_YY_NOOP", "M4_MODE_PREFIX", "yyless(1", "$1", "$@", "`'",
           "%%", "*/", "/*", "//", "'", "[", "]", "\\", "#", "m4_ifdef([[M4_YY_IN_HEADER]],[[a]],[[b]])", "yytext", "yymore()", "REJECT", "{}"}
Scenarios == {<<r, t1, t2>> : r \in Regions, t1 \in Tokens, t2 \in Tokens \cup {""}}

Obs == IF IOEnv.GEN = "1" THEN <<>> ELSE ndJsonDeserialize(IOEnv.OBS)

VARIABLE i
Init == i = 1
Next == i < Len(Obs) /\ i' = i + 1
Spec == Init /\ [][Next]_i
O == Obs[i]

\* one observation per (specification, region):
\* [region, expected, observed, srcline, seenline, flexrc, ccrc, linedirs_bad, noline_dirs]
Accepted     == O.flexrc = 0 /\ O.ccrc = 0      \* hostile text in user code is no reason to fail
Verbatim     == (O.flexrc = 0 /\ O.ccrc = 0) => O.observed = O.expected
LineAccurate == (O.flexrc = 0 /\ O.ccrc = 0 /\ ~O.noline) => O.seenline = O.srcline
\* every #line naming the output file is followed by the line it announces
GenLinesTrue == O.linedirs_bad = 0
\* -L / %option noline: no #line at all
NolineClean  == O.noline => O.linedirs = 0

\* scenario export
GenOK == IOEnv.GEN = "1" => JsonSerialize(IOEnv.SCN, [regions |-> SetToSeq(Regions), tokens |-> SetToSeq(Tokens),
                                                         scenarios |-> Cardinality(Scenarios)])
=============================================================================

--------------------------- MODULE Trace_Heap ---------------------------
(* trace validation of the allocation ledger recorded by the harness's
   yyalloc/yyrealloc/yyfree (file <trace>.heap) against FlexHeap *)
EXTENDS FlexHeap, Sequences, TLC, Json, IOUtils

Tr == ndJsonDeserialize(IOEnv.TRACE)
VARIABLE l
E == Tr[l]
Is(e) == l <= Len(Tr) /\ E.e = e /\ l' = l + 1

TInit == HInit /\ l = 1
TNext == \/ Is("Reset") /\ HReset
         \/ Is("Alloc") /\ Alloc(E.p)
         \/ Is("Realloc") /\ Realloc(E.old, E.p)
         \/ Is("Free") /\ Free(E.p)
         \/ Is("AllocFail") /\ Refuse
         \/ Is("ReallocFail") /\ (E.old = 0 \/ E.old \in live) /\ Refuse
         \/ Is("Fatal") /\ Fatal(E.cls)
         \/ Is("InitFail") /\ InitFail(E.errno)
         \/ Is("Destroyed") /\ E.live = Cardinality(live) /\ Destroyed
TSpec == TInit /\ [][TNext]_<<hvars, l>>
Accepted == TLCGet("stats").diameter - 1 = Len(Tr)
=============================================================================

---------------------------- MODULE MC_Buffer ----------------------------
(* Model checking of FlexBuffer: a 5-byte input (with a NUL byte and a newline in it) through buffers of     *)
(* initial size 1..3, read requests capped at 3, every split of the input into tokens, every read size,      *)
(* up to two yyunput() calls; once for a buffer flex owns, once for a user-owned one, once for a REJECT      *)
(* scanner (MC_Buffer*.cfg).                                                                                *)
EXTENDS FlexBuffer
SrcDef == <<97, 0, 98, 10, 99>>

\* refinement: every step of the concrete buffer is a step of the stream abstraction (or leaves it unchanged:
\* scanning, moving text to the front, growing)
Abs == INSTANCE FlexStream WITH consumed <- out, pending <- Pending, rest <- src
Refines == Abs!Spec
=============================================================================

--------------------------- MODULE MC_Product ---------------------------
(***************************************************************************)
(* Exact comparison, for ALL input strings, of the automaton denoted by    *)
(* the tables of a really generated scanner with the reference automaton   *)
(* of the documented pattern semantics.                                    *)
(*                                                                         *)
(* A state is <<case, table state, item state>>; TLC's breadth-first       *)
(* search of the product from every start state (2 per start condition),   *)
(* over one representative byte per equivalence class plus NUL, is the     *)
(* bisimulation check.  `path` (hidden by the VIEW) is a shortest input    *)
(* leading to the state: on a violation it is the distinguishing input,    *)
(* otherwise it is exported as the transition cover that is replayed       *)
(* through the running scanner.                                            *)
(*                                                                         *)
(* Cases come from the ndjson file named by the environment variable       *)
(* CASES: one line [id, src (rule-set source), T (table record)].          *)
(***************************************************************************)
EXTENDS FlexRules, FlexTables, TLC, Json, IOUtils, SequencesExt

Cases == ndJsonDeserialize(IOEnv.CASES)
N  == Len(Cases)
RS == [k \in 1..N |-> Compile(Cases[k].src)]
TB == [k \in 1..N |-> Cases[k].T]
RP == [k \in 1..N |-> Reps(TB[k])]

VARIABLES cs, st, D, path
vars == <<cs, st, D, path>>
View == <<cs, st, D>>

Init == \E k \in 1..N : \E sc \in 1..RS[k].nsc : \E bol \in BOOLEAN :
          /\ cs = k
          /\ st = StartState(TB[k], sc, bol)
          /\ D = Start(RS[k], sc, bol)
          /\ path = <<sc, IF bol THEN 1 ELSE 0>>

Step == /\ st # JAM /\ ~Bad(st)
        /\ \E b \in RP[cs] :
             /\ st' = TNext(TB[cs], st, b)
             /\ D' = StepI(RS[cs], D, b)
             /\ path' = Append(path, b)
        /\ cs' = cs

Spec == Init /\ [][Step]_vars

-----------------------------------------------------------------------------
\* expected accepting list of an item state (REJECT scanners).  flex sorts by
\* rule number before or-ing in YY_TRAILING_MASK; "head reached" entries of
\* variable trailing context rules carry YY_TRAILING_HEAD_MASK while sorting.
AccKeys(R, S) == Full(S) \cup {k + TRAILING_HEAD_MASK : k \in {j \in HeadDone(S) : R.rules[j].var}}
MaskOf(R, k) == IF k < TRAILING_HEAD_MASK /\ R.rules[k].var THEN k + TRAILING_MASK ELSE k
AccList(R, S) == LET q == SortSeq(SetToSeq(AccKeys(R, S)), <) IN [i \in 1..Len(q) |-> MaskOf(R, q[i])]

AccOK(T, R, s, S) ==
  IF T.reject THEN AccSlice(T, s) = AccList(R, S)
  ELSE Act(T, s) = First(S)

\* every index the matching loop can form in this state is inside its array
IndexSafe ==
  /\ ~Bad(st)
  /\ st # JAM => /\ ~Bad(NextSentinel(TB[cs], st))
                 /\ IF TB[cs].reject THEN AccSlice(TB[cs], st) # <<OOB>> ELSE ~Bad(Act(TB[cs], st))

\* the tables jam exactly when no rule can continue, and select exactly the
\* rule(s) the pattern semantics selects
Bisim ==
  ~Bad(st) => /\ (st = JAM) <=> (D = {})
              /\ st # JAM => AccOK(TB[cs], RS[cs], st, D)

\* the sentinel NUL always leads to the end-of-buffer action
EobOK ==
  (st # JAM /\ ~Bad(st)) =>
     LET e == NextSentinel(TB[cs], st) IN
     /\ e # JAM /\ ~Bad(e)
     /\ IF TB[cs].reject THEN AccSlice(TB[cs], e) = <<TB[cs].eobact>> ELSE Act(TB[cs], e) = TB[cs].eobact

\* interactive scanners stop (without reading on) exactly in states without
\* outgoing transitions
StopOK ==
  (st # JAM /\ ~Bad(st) /\ TB[cs].mode = "cmp") =>
     (StopsHere(TB[cs], st) <=> NoOut(D))

\* bytes flex put into one equivalence class are not told apart by any pattern
EcSound ==
  Len(path) = 2 =>
    \A b \in 1..(TB[cs].csize - 1) :
       LET r == RepOf(TB[cs], b) IN \A S \in AllSets(RS[cs]) : (b \in S) <=> (r \in S)

\* not a property: exports every product state (rule selected there and a
\* shortest input reaching it) for the "rule cannot be matched" check and
\* for the transition cover
Observe == PrintT(<<"ST", cs, st, First(D), path>>)
=============================================================================

SPECIFICATION Spec
INVARIANT LayoutOK
INVARIANT ContentOK
INVARIANT LoaderOK
CHECK_DEADLOCK FALSE

#!/usr/bin/env python3
"""validate /verif/evidence/*.json and MANIFEST.json against the schemas in /root/.vp (run with python3-vt)"""
import json, glob, sys, jsonschema
es = json.load(open("/root/.vp/EVIDENCE.schema.json")); bad = 0
for f in sorted(glob.glob("/verif/evidence/C*.json")):
    try:
        jsonschema.validate(json.load(open(f)), es)
    except Exception as e:
        bad += 1; print(f, "INVALID:", str(e)[:300])
try:
    jsonschema.validate(json.load(open("/verif/MANIFEST.json")), json.load(open("/root/.vp/MANIFEST.schema.json")))
except Exception as e:
    bad += 1; print("MANIFEST INVALID:", str(e)[:300])
print("invalid: %d" % bad); sys.exit(1 if bad else 0)

#!/bin/sh
# usage: confirm_seed.sh <name> <patch> <demo.sh>
# confirms a seeded change in a scratch worktree: applies, builds, the 257-test suite passes,
# the demonstration fails with the change and passes on the unchanged tree.  Prints one summary line.
n=$1; p=$2; demo=$3
wt=/tmp/wt/confirm-$n
git -C /repo worktree remove --force $wt 2>/dev/null
/verif/tools/mkwt.sh $wt >/dev/null 2>&1
if ! git -C $wt apply $p 2>/dev/null; then echo "$n: PATCH-DOES-NOT-APPLY"; git -C /repo worktree remove --force $wt; exit 1; fi
t=$(/verif/tools/runtests.sh $wt 2>&1 | tr '\n' ' ')
case "$t" in *"PASS:  257"*) ;; *) t=$(/verif/tools/runtests.sh $wt 2>&1 | tr '\n' ' ');; esac
bash $demo $wt >/tmp/wt/confirm-$n.mut.log 2>&1; dm=$?
bash $demo /repo >/tmp/wt/confirm-$n.base.log 2>&1; db=$?
echo "$n: suite=[$t] demo_on_mutant=$dm demo_on_unchanged=$db"
git -C /repo worktree remove --force $wt
rm -f /tmp/wt/confirm-$n.build.log /tmp/wt/confirm-$n.check.log

#!/usr/bin/env python3
"""save confirmed seeded changes from /tmp/wt/out/<id> into /verif/seeded/<id> (usage: save_seed.py <wave note> id...)"""
import json, os, shutil, sys
note = sys.argv[1]
for m in sys.argv[2:]:
    src = "/tmp/wt/out/" + m; dst = "/verif/seeded/" + m
    os.makedirs(dst, exist_ok=True)
    for f in os.listdir(src):
        fp = os.path.join(src, f)
        if os.path.isfile(fp) and os.path.getsize(fp) < 2_000_000: shutil.copy(fp, os.path.join(dst, f))
    try: d = json.load(open(os.path.join(src, "meta.json")))
    except Exception as e: d = {"note": "agent meta unreadable: %s" % e}
    d["breaks"] = m[:3]
    d["confirmed"] = {"how": "tools/confirm_seed.sh: scratch worktree of /repo, patch applied, in-tree build, 257-test suite regenerated and run, demo.sh on the changed tree and on /repo",
                      "suite": "257 pass / 0 fail", "demo_on_changed_tree": "exit 1", "demo_on_unchanged_tree": "exit 0"}
    d["from_agent"] = note
    json.dump(d, open(os.path.join(dst, "meta.json"), "w"), indent=1)
    print("saved", m)

#!/usr/bin/env python3
"""usage: [VERIF_REPO=<tree>] tools/probe_family.py <family> [cfg-json]   -- product check (and a few traces) of one rule-set
family against flex built from the tree; for trying a strengthening against a seeded change without running a whole check.
families: ctx, ctxfull, manysc, hand, strings"""
import os, sys, json, random
sys.path.insert(0, os.path.join(os.path.dirname(os.path.abspath(__file__)), "..", "lib"))
os.environ.setdefault("VERIF_EVIDENCE_DIR", "/tmp/wt/probe-ev")
from vf import engine, build, units, rulesets
fam = sys.argv[1]; cfg = json.loads(sys.argv[2]) if len(sys.argv) > 2 else {"tbl": ""}
srcs = {"ctx": lambda: rulesets.context_family(False), "ctxfull": lambda: rulesets.context_family(True),
        "manysc": rulesets.manysc_family, "big": rulesets.big_family, "nulclass": rulesets.nulclass_family, "hand": rulesets.handwritten}[fam]()
run = engine.Run("C01", "quick", 0)
fd = build.build_flex()
cases = units.product_unit(run, fd, srcs, [cfg], tag="probe", san=True)
if "--traces" in sys.argv:
    units.trace_unit(run, [c for c in cases if c.status == "ok"], random.Random(0), per_case=6, tag="t", full_cover=100)
for v in run.violations[:5]: print("VIOL", v.kind, v.what[:300])
print("cases", len(cases), "ok", sum(1 for c in cases if c.status == "ok"), "violations", len(run.violations), "errors", run.errors[:2])

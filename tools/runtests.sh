#!/bin/sh
# usage: runtests.sh <worktree>  -- rebuild flex from the worktree sources, regenerate all test scanners, run the 257-test suite
d=$1
cd "$d" || exit 2
make -C src -j8 >/tmp/wt/$(basename $d).build.log 2>&1 || { echo "BUILD FAILED (see /tmp/wt/$(basename $d).build.log)"; exit 2; }
make -C tests clean >/dev/null 2>&1
make check -j8 >/tmp/wt/$(basename $d).check.log 2>&1
grep -E "^# (TOTAL|PASS|FAIL|ERROR)" /tmp/wt/$(basename $d).check.log
grep -q "^# PASS:  257" /tmp/wt/$(basename $d).check.log

#!/bin/sh
# usage: runtests.sh <tree>  -- rebuild flex in an in-tree autotools build, regenerate all test scanners, run the 257-test suite
d=$1
cd "$d" || exit 2
b=/tmp/$(basename $d).build.log
make -C src -j8 >$b 2>&1 || make -C src >$b 2>&1 || { echo "BUILD FAILED (see $b)"; exit 2; }
make -C tests clean >/dev/null 2>&1
make check -j8 >/tmp/$(basename $d).check.log 2>&1
grep -E "^# (TOTAL|PASS|FAIL|ERROR)" /tmp/$(basename $d).check.log
grep -q "^# PASS:  257" /tmp/$(basename $d).check.log

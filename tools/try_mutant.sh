#!/bin/sh
# usage: try_mutant.sh <patch.diff> <Cxx> [<Cyy> ...]  -- apply a seeded change to /repo, run the checks, undo it
p=$1; shift
git -C /repo apply --check "$p" 2>/dev/null || git -C /repo apply --check -3 "$p" 2>/dev/null || { echo "PATCH DOES NOT APPLY: $p"; exit 3; }
git -C /repo apply "$p" || exit 3
for c in "$@"; do
  ( cd /verif && timeout 1500 ./check $c 2>&1 | grep -E "^(VIOLATION|OK|ERROR)" | head -3 | cut -c1-300 )
done
git -C /repo checkout -- . 

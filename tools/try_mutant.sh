#!/bin/sh
# usage: try_mutant.sh <patch.diff> <Cxx> [<Cyy> ...]
# runs the checks against a scratch worktree of /repo with the seeded change applied (VERIF_REPO), so that
# /repo itself is never touched and several changes can be evaluated at the same time
p=$1; shift
wt=/tmp/wt/mut-$$
git -C /repo worktree add --detach $wt HEAD >/dev/null 2>&1
cp /repo/src/config.h $wt/src/config.h
if ! git -C $wt apply "$p" 2>/dev/null; then echo "PATCH DOES NOT APPLY: $p"; git -C /repo worktree remove --force $wt; exit 3; fi
for c in "$@"; do
  ( cd /verif && VERIF_REPO=$wt VERIF_EVIDENCE_DIR=/tmp/wt/mut-ev-$$ timeout 2400 ./check $c 2>&1 | grep -E "^(VIOLATION|OK|ERROR)" | head -2 | cut -c1-200 | sed "s/^/$c: /" )
done
git -C /repo worktree remove --force $wt
rm -rf /tmp/wt/mut-ev-$$

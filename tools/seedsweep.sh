#!/bin/sh
# usage: seedsweep.sh "<props>" "<seeds>"  -- run checks under several seeds, print one line each
for s in $2; do for p in $1; do
  r=$(VERIF_SEED=$s timeout 1500 ./check $p 2>&1 | grep -E "^(VIOLATION|OK|ERROR|KNOWN|  )" | head -4 | cut -c1-400 | tr '\n' '|')
  echo "seed=$s $p: $r"
done; done

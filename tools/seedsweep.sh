#!/bin/sh
# usage: seedsweep.sh "<props>" "<seeds>"  -- run checks under several seeds, print one status line each
for s in $2; do for p in $1; do
  out=$(VERIF_SEED=$s timeout 2400 ./check $p 2>&1 | tr -d '\000')
  r=$(printf '%s\n' "$out" | grep -aE "^(VIOLATION|OK|ERROR)" | head -2 | cut -c1-300 | tr '\n' '|')
  k=$(printf '%s\n' "$out" | grep -ac "^KNOWN-FINDING")
  d=$(printf '%s\n' "$out" | grep -aE "^  " | head -2 | cut -c1-300 | tr '\n' '|')
  echo "seed=$s $p: $r known=$k $d"
done; done

#!/usr/bin/env python3
"""usage: explain.py <replay dir>  -- show the rejected execution and the specification state where it got stuck"""
import json, os, re, subprocess, sys, tempfile
d = os.path.abspath(sys.argv[1])
rej = [f for f in os.listdir(d) if f.startswith("rejected")][0]
L = open(os.path.join(d, rej)).read().splitlines()
n = int(sys.argv[2]) if len(sys.argv) > 2 else 14
print(L[0][:900])
for x in L[max(1, len(L) - n):]:
    e = json.loads(x)
    print("  ", e.pop("e"), json.dumps(e)[:300])
cfg = tempfile.mktemp(suffix=".cfg")
open(cfg, "w").write("SPECIFICATION TSpec\nCONSTANT RSets <- RSetsDef\nCHECK_DEADLOCK TRUE\n")
tr = tempfile.mktemp(suffix=".ndjson"); open(tr, "w").write("\n".join(L) + "\n")
env = dict(os.environ, JAVA_TOOL_OPTIONS="-Xss256m", TRACE=tr, CASES=os.path.join(d, "cases.ndjson"))
md = tempfile.mkdtemp()
p = subprocess.run(["tlc", "-workers", "1", "-metadir", md, "-config", cfg, "Trace_Scanner.tla"], cwd="/verif/spec", env=env,
                   stdout=subprocess.PIPE, stderr=subprocess.STDOUT, text=True, timeout=120)
out = p.stdout
m = re.search(r"Error: (?!Deadlock)(.{0,600})", out, flags=re.S)
if m: print("TLC ERROR:", m.group(0)[:700])
i = out.rfind("State ")
st = out[i:]
st = re.sub(r"/\\ (rs|opt|hist|files) = .*?(?=/\\ |\Z)", "", st, flags=re.S) if "--full" not in sys.argv else st
print(re.sub(r"\n\s*\n", "\n", st)[:3000])
if "Deadlock" not in out: print(out[-1500:])

#!/usr/bin/env python3
"""Regenerates MANIFEST.json from the table below (single source of truth)."""
import json, os
V = os.path.dirname(os.path.dirname(os.path.abspath(__file__)))
CLAIMED = {
 "C01": ("model_checking", "TLC product bisimulation of real tables vs TLA+ pattern semantics + trace validation of token streams",
         "For each sampled rule set the tables of the really generated scanner are compared with the TLA+ pattern semantics (FlexRegex/FlexRules) for ALL input strings (TLC explores the finite product, MC_Product Bisim/IndexSafe/EobOK/StopOK/EcSound); the transition cover and random inputs are then run through the compiled scanner and every recorded execution must be a behaviour of FlexScanner (Trace_Scanner).",
         "rule sets are sampled (feature families + seeded random); Render() encodes the manual's concrete syntax; TLC, gcc, m4 trusted", "5 C01"),
 "C02": ("model_checking", "same TLA+ specification must explain every table/mode/API configuration (product + trace validation); refusals classified",
         "Configuration is absent from the abstract state: MC_Product must hold for the tables of every table option x -7/-8 x -I/-B x REJECT combination, and traces of nr/reentrant x %array/%pointer builds must be accepted by the same Trace_Scanner; unsupported combinations must be refused with the documented message, and every accepted one must compile.",
         "configurations x rule sets sampled beyond the fixed lattice; C++/c99 back ends covered in C12/C19 harnesses", "5 C02"),
 "C03": ("model_checking", "trace validation with the no-over-read enabling condition of Read (FlexScanner!Read, MatchDecided) under all read schedules, buffer sizes and delivery paths",
         "Every Read event of a recorded execution must be enabled in FlexScanner: the scanner may ask its source for input only while the current match is undecided given the bytes already delivered (interactive: jam or a state without outgoing transitions; batch: jam).  Executions under buffer sizes 1..64, read-size patterns from 1 byte to everything, the harness's YY_INPUT, the scanner's own stdio YY_INPUT (cookie streams) and yy_scan_bytes/yy_scan_buffer delivery must all be behaviours of the same machine, i.e. give the tokens the specification determines from the bytes alone.",
         "inputs without NUL for the strict clause (open finding nul-overread); read(2) path (%option read) not exercised", "5 C03"),
 "C04": ("model_checking", "product check with NUL/high bytes in the alphabet in every table mode + trace validation with NULs at all buffer offsets",
         "MC_Product includes byte 0 (through YY_NUL_EC / yy_NUL_trans) and high bytes for nul/high/7-bit rule-set families in compressed, full and full-speed tables, interactive and batch, REJECT or not; recorded executions with NUL-rich inputs, buffer sizes 1..8 and 1..3 byte reads must be behaviours of FlexScanner.",
         "sampled rule sets/inputs; 7-bit scanners only fed 7-bit input", "5 C04"),
 "C06": ("model_checking", "item-state (head/trail phase) reference automaton vs real tables for all inputs + trace validation of yytext/resume position",
         "Accepting sets incl. YY_TRAILING(_HEAD)_MASK entries must equal those of the TLA+ item-state semantics from every (start condition, at-bol) start state for all inputs; recorded executions must show exactly head text, rescanned trail and ^ only after newline/buffer start.",
         "dangerous-trailing-context rule sets skipped as the property allows; 'variable' judged from the artifact", "5 C06"),
 "C07": ("model_checking", "REJECT accept lists vs ordered AccSet for all inputs (TLC) + trace validation of the visit order",
         "yy_acclist slices of every reachable state must equal the ordered accepting set of the reference automaton; in recorded executions the Tok events between two consumptions must follow Cands (decreasing length, then rule order); REJECT with -Cf/-CF must be refused.",
         "REJECT scripted only before the action edits the stream", "5 C07"),
 "C05": ("model_checking", "Active() of FlexRules vs real tables from every (condition, at-bol) start state for all inputs (TLC) + trace validation of yybegin/push/pop/top histories",
         "Rule activation is decided for all inputs by the product check from all 2*|SC| start states, for declarations rendered as prefixes and as scopes; recorded executions with scripted yybegin/yy_push_state/yy_pop_state/yy_top_state calls (stack depths crossing the 25-entry growth step, underflow) must be behaviours of FlexScanner (LIFO stack, underflow = reported fatal error, condition changes only by these calls).",
         "declarations and histories sampled", "5 C05"),
 "C08": ("model_checking", "trace validation of scripted yyless/yymore/yyunput/yyinput histories against FlexScanner (stream conservation)",
         "Every recorded execution (nr/reentrant x %array/%pointer x buffer sizes 1..16 x read sizes 1..5) with scripted yyless/yymore/yyunput/yyinput calls must be a behaviour of the abstract stream machine: consumed + pending = input edited by the logged calls, at every step.",
         "combinations the manual leaves undefined are not scripted (yyless/yymore after yyunput/yyinput in one action, REJECT after edits); open finding array-yyless-after-yymore", "5 C08"),
 "C09": ("model_checking", "trace validation of yylineno at every action, return and edit (LinenoExact in FlexScanner) over all newline-capable pattern forms",
         "For every syntactic form by which a rule can match a newline (literal, escapes, string, class, negated class, range, POSIX class and negation, (?s:.), {-}/{+}, definition, closure, trailing context, $, default rule) and for sampled rule sets, recorded executions must show yylineno = 1 + newlines consumed net of yyless/trailing context/yyunput/REJECT, plus yyinput; without the option the value never changes.",
         "inputs and edit histories sampled", "5 C09"),
 "C10": ("model_checking", "trace validation of end-of-input behaviour (WrapEnter/WrapRet/EofAct/AtEof, Restart, SetYyin, Call after termination) against FlexScanner",
         "Recorded executions with several input sources, scripted yywrap() behaviours (stop; new yyin; create+switch; yy_scan_*; delete-then-install), <<EOF>> rules per start condition and post-termination calls (yylex again, new yyin, yyrestart) must be behaviours of FlexScanner: yywrap only when nothing is pending, the <<EOF>> action of the current condition (unqualified rule = those lacking one), continuation in the unchanged start condition at beginning of line with nothing lost from either source.",
         "scenarios sampled (seeded)", "5 C10"),
 "C11": ("model_checking", "trace validation of multi-buffer histories (create/scan_*/switch/push/pop/flush/delete/restart from actions, yywrap and between calls) against FlexScanner's per-buffer records",
         "Every buffer owns its pending text, at-bol flag, source and (reentrant) line number in the specification; recorded executions mixing yy_create_buffer, yy_scan_string/bytes/buffer (incl. the NULL result for a buffer lacking its two NULs), yy_switch_to_buffer, yypush/yypop_buffer_state, yy_flush_buffer, yy_delete_buffer and yyrestart, from inside actions, from yywrap and between yylex calls, must be behaviours of it (nothing lost, duplicated or reordered; resume exactly where stopped).",
         "scenarios sampled (seeded); deleting the current buffer only through yypop_buffer_state", "5 C11"),
 "C13": ("model_checking", "IndexSafe of MC_Product over every table representation + trace validation of API histories and of the allocation ledger (FlexHeap) under ASan/UBSan",
         "TLC proves, per rule set and table representation, that every index the matching loop forms for every (state, byte) stays inside the dumped arrays; recorded API histories (edits, stack growth, buffers, yywrap, destroy-and-reuse in one process, %array capacity) must be behaviours of FlexScanner, and the ledger recorded by the harness's yyalloc/yyrealloc/yyfree must be a behaviour of FlexHeap: only live blocks freed or reallocated, nothing live after the user's buffers are deleted and yylex_destroy returns.",
         "general absence of undefined behaviour outside the modelled indices and the ledger is observed by the sanitizer monitor (DESIGN.md section 9), not decided by TLC", "5 C13"),
 "C14": ("fault_enumeration", "single-fault enumeration (k-th allocation refused; EINTR / EIO at each read index) with trace validation against FlexScanner and FlexHeap",
         "For each scenario a clean run counts allocation requests and read attempts; then one run per allocation index with that request refused and per read index with EINTR or a hard error (through the scanner's own stdio YY_INPUT on cookie streams).  FlexHeap allows nothing after a refusal but the fatal-error hook or the documented error return of yylex_init (ENOMEM/EINVAL, nothing kept); an EINTR run must equal the clean run; a hard error must reach the fatal-error hook.",
         "one fault per run; fault points capped per scenario in the quick tier; read(2) path (%option read) not exercised", "5 C14"),
 "C15": ("model_checking", "TLC parses the real tables file with the documented container grammar (FlexTablesFile) and compares every value with the in-code tables; loader outcomes on every truncation / wrong magic / set order judged against Load; loaded-table scanners trace-validated",
         "FlexTablesFile is the byte-level grammar of the container (magic, header and set sizes, NUL-terminated version and name, per-table id / width-and-shape flags / dimensions, big-endian, padding to 8).  TLC parses the file flex really wrote and checks (LayoutOK) that it is exactly a sequence of well-formed sets containing the scanner's set and (ContentOK) that every serialized table equals the table the in-code build of the same rule set dumps, for compressed, full, full-speed and REJECT tables.  The real loader is run on every prefix of the file, on a wrong magic number and on files holding another set before/after ours; LoaderOK: never a crash, success exactly when the grammar reaches a complete set of the wanted name.  Scanners running on loaded tables must produce executions equal to the in-code build's (trace unit).  --tables-verify accepts the genuine file and rejects altered values.",
         "rule sets / table modes sampled; release by yytables_destroy observed by LeakSanitizer", "5 C15"),
 "C16": ("fault_enumeration", "observation tables of flex invocations (write faults on every output, structural mutations, random bytes, limit overruns) judged by TLC against FlexProc (Terminates, NoCrash, ExitHonest, LimitReported)",
         "The sanitizer build of flex is run on valid specifications with every requested output (scanner via -o and -t, header, tables, backup) failing in every mode (/dev/full, uncreatable path, RLIMIT_FSIZE), on option sets, on structurally mutated and random inputs and on inputs exceeding the documented limits; each invocation becomes one observation and TLC checks the FlexProc invariants on the whole table: terminates, no signal or sanitizer report, status 0 only with every requested output complete, non-zero status only with a diagnostic, a failing write never absorbed.",
         "input space explored, not exhausted; two open findings on --header-file write failures", "5 C16"),
 "C18": ("exploration", "two-run self-composition: observations of the same input and options under perturbed environments must be byte-identical (FlexProc!Deterministic, judged by TLC) + bootstrap fixpoint",
         "Each (input, options) group is generated under allocator perturbation (MALLOC_PERTURB_), arena settings, a 60 kB environment, another working directory, the sanitizer build of flex, and -t versus -o; TLC checks on the observation table that all members of a group have the same exit status and identical scanner, header and tables digests (#line file names masked).  The group includes a 1800-keyword rule set that forces the nxt/chk, DFA and NFA arrays to be reallocated several times.  flex's own scanner regenerated by the flex built from it must reproduce itself.",
         "environments are a finite list; heap contents perturbed only through MALLOC_PERTURB_ and the sanitizer allocator", "5 C18"),
 "C20": ("model_checking", "TLC-enumerated (region kind x hostile token sequence) scenarios laid out as specifications; observations (text and __LINE__ seen by the compiled program, #line audit) judged by TLC against FlexUserCode",
         "FlexUserCode defines the region kinds (%top, %{ %}, indented code, section-2 declarations, one-line, braced and '|' actions, section 3) and the hostile vocabulary (m4 quotes, m4 and flex-internal macro names, $1, $@, quotes, comment delimiters, %%, brackets, backslash); every specification generated from it is run through flex, the C compiler and the resulting program, which prints the bytes and the __LINE__ it was compiled with; TLC checks Accepted, Verbatim, LineAccurate, GenLinesTrue (every #line naming the output file announces its own position) and NolineClean (-L leaves no #line).",
         "token sequences of length <= 2; hostile text sits in string literals and comments of each region, plus a[a[0]]-style code", "5 C20"),
 "C17": ("model_checking", "exact reachability of 'rule r is selected' in the TLA+ reference automaton (TLC) compared with flex's warnings",
         "TLC enumerates every reachable item state of the reference automaton from every start state; the set of selectable rules is compared with flex's 'rule cannot be matched' and -s default-rule warnings (iff for plain rule sets, no-false-warning for REJECT/variable trailing context).",
         "rule sets sampled", "5 C17"),
}
NA_REASON = "check not yet implemented in this revision of the framework (specification module planned in DESIGN.md section 3)"
props = [json.loads(l) for l in open(os.path.join(V, "properties.jsonl"))]
checks = []; na = []
for p in props:
    pid = p["id"]
    if pid in CLAIMED:
        cat, tech, text, note, ref = CLAIMED[pid]
        checks.append(dict(property_id=pid, quick_cmd="./check %s --tier quick" % pid, thorough_cmd="./check %s --tier thorough" % pid,
                           evidence_file="evidence/%s.json" % pid, replay_cmd_template="cat {path}/violation.json",
                           engine="tlc-conformance", level_claimed=dict(category=cat, text=text, design_ref=ref),
                           level_note=note, technique=tech))
    else:
        na.append(dict(property_id=pid, reason=NA_REASON))
m = dict(version=1, setup_cmd="./setup.sh",
         hooks=dict(guard="FLEX_VERIF", enable="no source hooks: all observation points are documented user seams of the generated scanner (YY_USER_ACTION, YY_INPUT, YY_FATAL_ERROR, <<EOF>>, section-3 code) - see DESIGN.md section 8",
                    baseline_off_cmd="sh /verif/tools/runtests.sh /repo", source_commits=[], add_only=True),
         engines=[dict(name="tlc-conformance", path="check", serves_properties=sorted(CLAIMED),
                       kind_free_text="TLA+ specs in spec/ checked with TLC; bound to flex by product exploration of dumped tables and by trace validation of recorded executions")],
         checks=checks, not_applicable=na,
         notes="fix: commits in /repo and open findings are listed in known_findings.json")
json.dump(m, open(os.path.join(V, "MANIFEST.json"), "w"), indent=1)
print("claimed", len(checks), "n/a", len(na))

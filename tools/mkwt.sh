#!/bin/sh
# usage: mkwt.sh <dir>   -- scratch git worktree of /repo with the in-tree build state copied in
set -e
d=$1
git -C /repo worktree add --detach "$d" HEAD >/dev/null 2>&1
rsync -a --exclude .git /repo/ "$d"/
echo "$d ready"

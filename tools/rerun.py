#!/usr/bin/env python3
"""usage: rerun.py <replay dir> [--gdb]  -- rebuild the scanner of a replay artefact from /repo's tree and rerun the recorded job"""
import json, os, subprocess, sys, tempfile, glob
sys.path.insert(0, "/verif/lib")
from vf import build, scanner
d = sys.argv[1]
v = json.load(open(os.path.join(d, "violation.json")))
cfg = v["detail"]["cfg"]
l = glob.glob(os.path.join(d, "*.l"))[0]
rej = [f for f in os.listdir(d) if f.startswith("rejected")][0]
hdr = json.loads(open(os.path.join(d, rej)).readline())
fd = build.build_flex()
wd = tempfile.mkdtemp(prefix="rerun.")
c = dict(scanner.DEFAULT_CFG); c.update(cfg)
cxx = c.get("flavour") == "cxx"
cpath = os.path.join(wd, "s.cc" if cxx else "s.c")
subprocess.run([fd + "/flex"] + scanner.flex_args(c) + ["-o", cpath, l], check=True)
defs = scanner.detect_defs(open(cpath).read())
exe = os.path.join(wd, "s")
subprocess.run(["g++" if cxx else "gcc", "-O0", "-g", "-w", "-D_GNU_SOURCE", "-fsanitize=address,undefined"] + ["-D" + x for x in defs] + ["-I", fd, "-o", exe, cpath], check=True)
files = ";".join(bytes(f).hex() for f in hdr["files"])
keep = {k: hdr[k] for k in ("rs", "interactive", "array", "linenoopt", "bolneeded", "rejectmode", "strictread", "reentrant", "userwrap", "failalloc", "stdio") if k in hdr}
line = "\t".join([json.dumps(keep)[1:-1], files, hdr.get("sched", ""), hdr.get("ops", "-,0"), str(hdr["bufsize"]), str(hdr.get("initsc", 0)),
                  hdr.get("outs", "-,0"), hdr.get("wraps", "-,0"), str(hdr.get("failalloc", 0)), hdr.get("readfault", "")]) + "\n"
jf = os.path.join(wd, "jobs"); open(jf, "w").write(line)
tr = os.path.join(wd, "trace.ndjson")
p = subprocess.run([exe, "many", tr, jf, "0"], stdout=subprocess.DEVNULL, stderr=subprocess.PIPE, text=True)
print("rc", p.returncode, "workdir", wd)
print(p.stderr[:2500])
for x in open(tr).read().splitlines()[-8:]: print(x[:200])

"""Reusable check units: the product (bisimulation) unit and the trace
validation unit.  Checks (lib/vf/checks.py) compose them per property."""
import concurrent.futures as cf
import json, os, random, re, shutil, time
from . import product, traces, tlc, scanner

NCPU = int(os.environ.get("VERIF_JOBS", "16"))


# ------------------------------------------------------------------ documented refusals
def uses_high(src):
    return any(b >= 128 for b in traces.alphabet_of(dict(src, sevenbit=False)))


def has_var_trailing_syntax(src):
    """could flex legitimately treat some rule as variable trailing context?"""
    return any(r["trail"] != ["none"] for r in src["rules"])


def expected_refusal(src, cfg):
    """None if flex must accept; else a regex the diagnostic must match.
    (mirror of spec/FlexCli.tla Classify for the table/mode part)"""
    t = cfg.get("tbl", "")
    full = "f" in t or "F" in t
    if full and cfg.get("interactive") is True:
        return r"-Cf/-CF and -I are incompatible|incompatible"
    if full and cfg.get("reject") and cfg.get("reject") != "no":
        return r"REJECT cannot be used with -f or -F"
    if full and cfg.get("lexcompat"):
        return r"incompatible"
    return None


def may_refuse(src, cfg, msg):
    """refusals that are acceptable but not mandatory (syntactic judgement of flex)"""
    t = cfg.get("tbl", "")
    full = "f" in t or "F" in t
    if full and has_var_trailing_syntax(src) and re.search(r"REJECT|variable trailing", msg):
        return True
    if (cfg.get("bits") == 7 or src.get("sevenbit")) and re.search(r"requires -8|8-bit|bad character", msg):
        return True
    return False


def product_unit(run, flexdir, srcs, cfgs, tag="product", san=False, keep=False):
    """every src x cfg.  Returns the list of product.Case (with .gen kept if keep)."""
    wd = os.path.join(run.work, tag); os.makedirs(wd, exist_ok=True)
    cases = []
    n = 0
    for src in srcs:
        for cfg in cfgs:
            cases.append(product.Case("%s%04d" % (tag[:3], n), src, cfg)); n += 1
    st = product.run_product(flexdir, cases, wd, san=san)
    run.cov["states"] += st["distinct"]; run.cov["transitions"] += st["generated"]
    for e, ids in st["model_errors"]:
        run.error("TLC MC_Product failed on %s: %s" % (ids[:3], e[-600:]))
    cnt = {}
    for c in cases:
        cnt[c.status] = cnt.get(c.status, 0) + 1
        key = dict(src=c.src, cfg=c.cfg)
        lfile = [os.path.join(wd, c.id + ".l")]
        if c.dangerous:
            run.note_case(key, False); continue
        if c.status == "ok":
            run.note_case(key, len(c.states) > 2 * len(c.src["scs"]))
            if len(run.cov["samples"]) < 2:
                run.sample(dict(kind="product", rules=[l for l in open(lfile[0]).read().split("%%")[1].strip().splitlines()],
                                flex_args=scanner.flex_args(c.cfg), product_states=len(c.states),
                                shortest_inputs=[s[2] for s in c.states[:5]]))
        elif c.status == "violation":
            v = c.violation
            run.note_case(key)
            run.violation("product:" + v["invariant"],
                          "tables of %s (%s, flex %s) disagree with the pattern semantics: invariant %s fails after input [start condition, at-bol, bytes...] = %s"
                          % (c.src.get("name"), c.id, " ".join(scanner.flex_args(c.cfg)), v["invariant"], v["path"]),
                          dict(cfg=c.cfg, path=v["path"], trace=v["trace"][:3000], name=c.src.get("name")), lfile)
        elif c.status == "builderr":
            run.note_case(key)
            run.violation("builderr", "flex emitted a scanner that does not compile for %s (flex %s): %s"
                          % (c.src.get("name"), " ".join(scanner.flex_args(c.cfg)), c.detail[-400:]),
                          dict(cfg=c.cfg, name=c.src.get("name")), lfile)
        elif c.status == "refused":
            run.note_case(key)
            exp = expected_refusal(c.src, c.cfg)
            if exp and re.search(exp, c.detail): pass
            elif may_refuse(c.src, c.cfg, c.detail): pass
            else:
                run.violation("refused", "flex refused a supported combination for %s (flex %s): %s"
                              % (c.src.get("name"), " ".join(scanner.flex_args(c.cfg)), c.detail[:300]),
                              dict(cfg=c.cfg, name=c.src.get("name")), lfile)
        if c.status in ("ok", "violation") and expected_refusal(c.src, c.cfg):
            run.violation("notrefused", "flex accepted a combination the manual says it cannot support: %s (flex %s)"
                          % (c.src.get("name"), " ".join(scanner.flex_args(c.cfg))), dict(cfg=c.cfg), lfile)
    run.unit(tag, cases=len(cases), outcome=cnt, tlc_runs=st["tlc_runs"], tlc_wall=round(st["tlc_wall"], 1),
             gen_wall=round(st["gen_wall"], 1))
    return cases


# ------------------------------------------------------------------ traces
def cover_inputs(case, rng, n, maxlen=24):
    """inputs built from the product's shortest paths (one per product state,
    extended by each representative byte) - the transition cover - plus
    random strings over the rule set's alphabet"""
    paths = [bytes(b for b in s[2][2:]) for s in case.states if len(s[2]) > 2]
    alpha = case.alphabet
    out = []
    for p in paths:
        out.append(p + bytes([rng.choice(alpha)]))
    rng.shuffle(out)
    out = out[:max(n // 2, 1)]
    while len(out) < n:
        k = rng.random()
        if paths and k < 0.5:
            s = b"".join(rng.choice(paths) + bytes([rng.choice(alpha)]) for _ in range(rng.randint(1, 3)))
        else:
            s = bytes(rng.choice(alpha) for _ in range(rng.randint(0, 14)))
        out.append(s[:maxlen])
    return out


def trace_unit(run, cases, rng, per_case=12, tag="traces", scripts=True, bufsizes=(0,), scheds=None,
               maxops=24, chunk=400, job_filter=None, inputs_fn=None, strictread=False):
    """cases: product.Case list with .gen (built scanners).  Records and validates
    per_case executions each."""
    wd = os.path.join(run.work, tag); os.makedirs(wd, exist_ok=True)
    live = [c for c in cases if c.gen and c.T is not None and not c.dangerous and c.status in ("ok",)]
    if not live:
        run.unit(tag, executions=0); return
    casefile = os.path.join(wd, "cases.ndjson")
    with open(casefile, "w") as f:
        for c in live:
            f.write(json.dumps({"id": c.id, "src": c.src}) + "\n")
    jobs = []
    for ci, c in enumerate(live):
        c.alphabet = traces.alphabet_of(c.src)
        ins = (inputs_fn or cover_inputs)(c, rng, per_case)
        for ji, inp in enumerate(ins):
            sched = rng.choice(scheds) if scheds else rng.choice([[], [1], [1, 2], [3], [2, 1, 4], [64]])
            bs = rng.choice(bufsizes)
            ops = traces.gen_script(rng, c, maxops=maxops) if scripts and rng.random() < 0.8 else []
            job = dict(input=inp, sched=sched, ops=ops, bufsize=bs,
                       initsc=rng.randrange(len(c.src["scs"])) if rng.random() < 0.4 else 0,
                       reset=dict(traces.reset_fields(c, ci + 1, strictread=strictread), cid=c.id))
            if job_filter: job = job_filter(c, job)
            if job: jobs.append((c, job, os.path.join(wd, "t-%d-%d.ndjson" % (ci, ji))))

    def one(x):
        c, job, tf = x
        return traces.run_job(c, job, tf)
    with cf.ThreadPoolExecutor(NCPU) as ex:
        res = list(ex.map(one, jobs))
    # concatenate into chunks, validate chunks in parallel
    chunks = []
    for i in range(0, len(jobs), chunk):
        cp = os.path.join(wd, "chunk-%d.ndjson" % (i // chunk))
        with open(cp, "w") as out:
            for (c, job, tf) in jobs[i:i + chunk]:
                if os.path.exists(tf):
                    out.write(open(tf).read())
        chunks.append((cp, jobs[i:i + chunk]))

    def val(ch):
        return traces.validate(ch[0], casefile)
    with cf.ThreadPoolExecutor(max(1, min(NCPU // 2, len(chunks)))) as ex:
        vres = list(ex.map(val, chunks))
    nexec = 0; nev = 0
    for (cp, cj), (ok, r, n) in zip(chunks, vres):
        run.cov["states"] += r.distinct; run.cov["transitions"] += r.generated
        nev += n
        if ok:
            nexec += len(cj); continue
        if r.error or r.timed_out:
            # a model failure is reported as an error unless a second run repeats it as a rejection
            run.error("Trace_Scanner failed on %s: %s" % (cp, (r.error or "timeout")[-800:]))
            continue
        lines = open(cp).read().splitlines()
        stuck = min(r.depth, len(lines))          # 1-based index of the first unexplained event
        start = max(i for i in range(stuck) if '"e":"Reset"' in lines[i][:14] or i == 0)
        nexec += sum(1 for x in lines[:start] if '"e":"Reset"' in x[:14])
        ctx = lines[start:stuck]
        hdr = json.loads(lines[start]) if '"Reset"' in lines[start] else {}
        cid = hdr.get("cid")
        c = next((k for k in live if k.id == cid), None)
        ev = json.loads(lines[stuck - 1]) if stuck - 1 < len(lines) else {}
        kind = "trace:crash" if ev.get("e") == "Crash" else "trace:rejected"
        lf = [c.gen["l"]] if c else []
        rp = os.path.join(wd, "rejected-%s.ndjson" % os.path.basename(cp)); open(rp, "w").write("\n".join(ctx) + "\n")
        run.violation(kind,
                      "execution of %s (flex %s) is not a behaviour of the specification: event #%d %s is not explained (after %d accepted events)"
                      % (c.src.get("name") if c else cid, " ".join(scanner.flex_args(c.cfg)) if c else "?", stuck - start,
                         json.dumps(ev)[:300], stuck - start - 1),
                      dict(cfg=c.cfg if c else None, events=ctx[-12:], reset=hdr), lf + [rp, casefile])
    run.cov["traces_validated_against_impl"] += nexec
    if jobs and len(run.cov["samples"]) < 4:
        c, job, tf = jobs[0]
        try:
            run.sample(dict(kind="trace", rules_file_excerpt=open(c.gen["l"]).read().split("%%")[1].strip().splitlines()[:8],
                            input=list(job["input"]), read_sizes=job["sched"], script=traces.ops_csv(job["ops"]),
                            events=open(tf).read().splitlines()[:10]))
        except Exception:
            pass
    run.unit(tag, executions=len(jobs), accepted=nexec, events=nev, scanners=len(live))

"""Reusable check units: the product (bisimulation) unit and the trace
validation unit.  Checks (lib/vf/checks.py) compose them per property."""
import concurrent.futures as cf
import json, os, random, re, shutil, time
from . import product, traces, tlc, scanner

NCPU = int(os.environ.get("VERIF_JOBS", "16"))


# ------------------------------------------------------------------ documented refusals
def uses_high(src):
    return any(b >= 128 for b in traces.alphabet_of(dict(src, sevenbit=False)))


def has_var_trailing_syntax(src):
    """could flex legitimately treat some rule as variable trailing context?"""
    return any(r["trail"] != ["none"] for r in src["rules"])


def expected_refusal(src, cfg):
    """None if flex must accept; else a regex the diagnostic must match.
    (mirror of spec/FlexCli.tla Classify for the table/mode part)"""
    t = cfg.get("tbl", "")
    full = "f" in t or "F" in t
    if full and cfg.get("interactive") is True:
        return r"-Cf/-CF and -I are incompatible|incompatible"
    if full and cfg.get("reject") and cfg.get("reject") != "no":
        return r"REJECT cannot be used with -f or -F"
    if full and cfg.get("lexcompat"):
        return r"incompatible"
    if "F" in t and cfg.get("flavour") == "cxx":
        return r"Can't use -\+ with -CF"
    return None


def may_refuse(src, cfg, msg):
    """refusals that are acceptable but not mandatory (syntactic judgement of flex)"""
    t = cfg.get("tbl", "")
    full = "f" in t or "F" in t
    if full and has_var_trailing_syntax(src) and re.search(r"REJECT|variable trailing", msg):
        return True
    if (cfg.get("bits") == 7 or src.get("sevenbit")) and re.search(r"requires -8|8-bit|bad character", msg):
        return True
    return False


def product_unit(run, flexdir, srcs, cfgs, tag="product", san=False, keep=False):
    """every src x cfg.  Returns the list of product.Case (with .gen kept if keep)."""
    wd = os.path.join(run.work, tag); os.makedirs(wd, exist_ok=True)
    cases = []
    n = 0
    for src in srcs:
        for cfg in cfgs:
            cases.append(product.Case("%s%04d" % (tag[:3], n), src, cfg)); n += 1
    st = product.run_product(flexdir, cases, wd, san=san)
    run.cov["states"] += st["distinct"]; run.cov["transitions"] += st["generated"]
    for e, ids in st["model_errors"]:
        run.error("TLC MC_Product failed on %s: %s" % (ids[:3], e[-600:]))
    cnt = {}
    for c in cases:
        cnt[c.status] = cnt.get(c.status, 0) + 1
        key = dict(src=c.src, cfg=c.cfg)
        lfile = [os.path.join(wd, c.id + ".l")]
        if c.dangerous:
            run.note_case(key, False); continue
        if c.status == "ok":
            run.note_case(key, len(c.states) > 2 * len(c.src["scs"]))
            if len(run.cov["samples"]) < 2:
                run.sample(dict(kind="product", rules=[l for l in open(lfile[0]).read().split("%%")[1].strip().splitlines()],
                                flex_args=scanner.flex_args(c.cfg), product_states=len(c.states),
                                shortest_inputs=[s[2] for s in c.states[:5]]))
        elif c.status == "violation":
            v = c.violation
            run.note_case(key)
            run.violation("product:" + v["invariant"],
                          "tables of %s (%s, flex %s) disagree with the pattern semantics: invariant %s fails after input [start condition, at-bol, bytes...] = %s"
                          % (c.src.get("name"), c.id, " ".join(scanner.flex_args(c.cfg)), v["invariant"], v["path"]),
                          dict(cfg=c.cfg, path=v["path"], trace=v["trace"][:3000], name=c.src.get("name")), lfile)
        elif c.status == "builderr":
            run.note_case(key)
            run.violation("builderr", "flex emitted a scanner that does not compile for %s (flex %s): %s"
                          % (c.src.get("name"), " ".join(scanner.flex_args(c.cfg)), c.detail[-400:]),
                          dict(cfg=c.cfg, name=c.src.get("name")), lfile)
        elif c.status == "refused":
            run.note_case(key)
            exp = expected_refusal(c.src, c.cfg)
            if exp and re.search(exp, c.detail): pass
            elif may_refuse(c.src, c.cfg, c.detail): pass
            else:
                run.violation("refused", "flex refused a supported combination for %s (flex %s): %s"
                              % (c.src.get("name"), " ".join(scanner.flex_args(c.cfg)), c.detail[:300]),
                              dict(cfg=c.cfg, name=c.src.get("name")), lfile)
        if c.status in ("ok", "violation") and expected_refusal(c.src, c.cfg):
            run.violation("notrefused", "flex accepted a combination the manual says it cannot support: %s (flex %s)"
                          % (c.src.get("name"), " ".join(scanner.flex_args(c.cfg))), dict(cfg=c.cfg), lfile)
    run.unit(tag, cases=len(cases), outcome=cnt, tlc_runs=st["tlc_runs"], tlc_wall=round(st["tlc_wall"], 1),
             gen_wall=round(st["gen_wall"], 1))
    return cases


# ------------------------------------------------------------------ traces
def cover_inputs(case, rng, n, maxlen=24):
    """inputs built from the product's shortest paths (one per product state,
    extended by each representative byte) - the transition cover - plus
    random strings over the rule set's alphabet"""
    paths = [bytes(b for b in s[2][2:]) for s in case.states if len(s[2]) > 2]
    alpha = case.alphabet
    out = []
    for p in paths:
        out.append(p + bytes([rng.choice(alpha)]))
    rng.shuffle(out)
    out = out[:max(n // 2, 1)]
    while len(out) < n:
        k = rng.random()
        if k > 0.7:
            out.append(scanner.P.sample_input(case.src, rng, alpha, maxlen)); continue
        if paths and k < 0.4:
            s = b"".join(rng.choice(paths) + bytes([rng.choice(alpha)]) for _ in range(rng.randint(1, 3)))
        else:
            s = bytes(rng.choice(alpha) for _ in range(rng.randint(0, 14)))
        out.append(s[:maxlen])
    return out


SCRIPT_MODES = ("none", "random", "random", "random", "rejectall", "rejectfirst", "moreless")


def make_script(rng, c, mode, maxops):
    rej = c.cfg.get("reject") and c.cfg.get("reject") != "no"
    if mode == "none": return []
    if mode == "rejectall" and rej: return [("R", 0)] * 60
    if mode == "rejectfirst" and rej:
        k = rng.randint(1, 4)
        return [("R", 0)] * k + [("-", 0)] + traces.gen_script(rng, c, maxops=maxops)
    if mode == "moreless" and c.cfg.get("yymore") and c.cfg.get("yymore") != "no":
        # text kept by yymore() in one action, given back by yyless() in a later one (also reaching into the kept text)
        out = []
        for _ in range(rng.randint(2, 6)):
            out += [("M", 0), ("-", 0)] * rng.randint(1, 2) + [("L", rng.randint(0, 3)), ("-", 0)]
            if rng.random() < 0.4: out += [("-", 0)] * rng.randint(1, 2)
        return out
    return traces.gen_script(rng, c, maxops=maxops)


def script_features(cfg):
    f = lambda k, d=False: bool(cfg.get(k, d)) and cfg.get(k, d) != "no"
    return (f("reject"), f("yymore"), f("stack", True), f("array"), f("yylineno", True))


def trace_unit(run, cases, rng, per_case=12, tag="traces", scripts=True, bufsizes=(0,), scheds=None,
               maxops=24, chunk=600, job_filter=None, inputs_fn=None, strictread=False, full_cover=False,
               script_modes=SCRIPT_MODES):
    """cases: product.Case list with .gen (built scanners).  Runs per_case scripted
    executions of each, and has TLC decide whether they are behaviours of the
    specification.  Scanners generated from the same rule set with the same
    script-relevant options get the same jobs; only the first one's executions
    and those of the others that differ from it (ignoring reads) go to TLC -
    an execution equal to an accepted one is accepted."""
    wd = os.path.join(run.work, tag); os.makedirs(wd, exist_ok=True)
    live = [c for c in cases if c.gen and c.T is not None and not c.dangerous and c.status in ("ok",)]
    if not live:
        run.unit(tag, executions=0); return
    casefile = os.path.join(wd, "cases.ndjson")
    with open(casefile, "w") as f:
        for c in live:
            f.write(json.dumps({"id": c.id, "src": c.src}) + "\n")
    groups = {}
    for ci, c in enumerate(live):
        c.alphabet = traces.alphabet_of(c.src)
        c._ci = ci
        key = json.dumps([c.src, script_features(c.cfg)], sort_keys=True)
        groups.setdefault(key, []).append(c)
    work = []
    for key, grp in groups.items():
        c0 = grp[0]
        if full_cover:
            ins = [bytes(b for b in s[2][2:]) + bytes([r]) for s in c0.states for r in sorted(set(c0.alphabet) | {0})][:full_cover]
            ins += (inputs_fn or cover_inputs)(c0, rng, per_case)
        else:
            ins = (inputs_fn or cover_inputs)(c0, rng, per_case)
        proto = []
        for inp in ins:
            mode = rng.choice(script_modes) if scripts else "none"
            proto.append(dict(input=inp, ops=make_script(rng, c0, mode, maxops),
                              initsc=rng.randrange(len(c0.src["scs"])) if rng.random() < 0.4 else 0))
        for c in grp:
            jobs = []
            for pj in proto:
                job = dict(pj, sched=rng.choice(scheds) if scheds else rng.choice([[], [1], [1, 2], [3], [2, 1, 4], [64]]),
                           bufsize=rng.choice(bufsizes),
                           reset=dict(traces.reset_fields(c, c._ci + 1, strictread=strictread), cid=c.id))
                if job_filter: job = job_filter(c, job)
                if job: jobs.append(job)
            work.append((c, jobs, os.path.join(wd, "t-%s.ndjson" % c.id)))

    with cf.ThreadPoolExecutor(NCPU) as ex:
        list(ex.map(lambda x: traces.run_jobs(x[0], x[1], x[2]), work))
    # select what TLC has to look at
    tovalidate = []     # (case, lines)
    nexec = 0; nequal = 0
    bycase = {c.id: (c, jobs, tf) for c, jobs, tf in work}
    for key, grp in groups.items():
        ref = None
        for gi, c in enumerate(grp):
            ex_ = traces.split_executions(bycase[c.id][2])
            nexec += len(ex_)
            if gi == 0 or strictread:
                ref = [traces.projection(e) for e in ex_] if gi == 0 else ref
                tovalidate += [(c, e) for e in ex_]
                continue
            for k, e in enumerate(ex_):
                if ref is not None and k < len(ref) and traces.projection(e) == ref[k] and '"lost"' not in e[0]:
                    nequal += 1
                else:
                    tovalidate.append((c, e))
    chunks = []
    for i in range(0, len(tovalidate), chunk):
        cp = os.path.join(wd, "chunk-%d.ndjson" % (i // chunk))
        with open(cp, "w") as out:
            for c, e in tovalidate[i:i + chunk]:
                out.write("".join(e))
        chunks.append((cp, tovalidate[i:i + chunk]))
    with cf.ThreadPoolExecutor(max(1, min(NCPU // 2, len(chunks) or 1))) as ex:
        vres = list(ex.map(lambda ch: traces.validate(ch[0], casefile), chunks))
    nacc = nequal; nev = 0; rejected_refs = set()
    for (cp, cj), (ok, r, n) in zip(chunks, vres):
        run.cov["states"] += r.distinct; run.cov["transitions"] += r.generated
        nev += n
        if ok:
            nacc += len(cj); continue
        if r.error or r.timed_out:
            run.error("Trace_Scanner failed on %s: %s" % (cp, (r.error or "timeout")[:900]))
            continue
        lines = open(cp).read().splitlines()
        stuck = min(r.depth, len(lines))          # 1-based index of the first unexplained event
        start = max([i for i in range(stuck) if lines[i].startswith('{"e":"Reset"')] or [0])
        nacc += sum(1 for x in lines[:start] if x.startswith('{"e":"Reset"'))
        ctx = lines[start:stuck]
        hdr = json.loads(lines[start]) if '"Reset"' in lines[start] else {}
        cid = hdr.get("cid")
        c = next((k for k in live if k.id == cid), None)
        ev = json.loads(lines[stuck - 1]) if stuck - 1 < len(lines) else {}
        kind = "trace:crash" if ev.get("e") == "Crash" else "trace:rejected"
        lf = [c.gen["l"]] if c else []
        rp = os.path.join(wd, "rejected-%s" % os.path.basename(cp)); open(rp, "w").write("\n".join(ctx) + "\n")
        run.violation(kind,
                      "execution of %s (flex %s) is not a behaviour of the specification: event #%d %s is not explained (after %d accepted events)"
                      % (c.src.get("name") if c else cid, " ".join(scanner.flex_args(c.cfg)) if c else "?", stuck - start,
                         json.dumps(ev)[:300], stuck - start - 1),
                      dict(cfg=c.cfg if c else None, events=ctx[-12:], reset=hdr), lf + [rp, casefile])
        # the rest of a rejected chunk is validated too (one rejection must not hide others)
        rest = [(cc, e) for (cc, e) in cj][sum(1 for x in lines[:stuck] if x.startswith('{"e":"Reset"')):]
        if rest:
            cp2 = cp + ".rest"
            with open(cp2, "w") as out:
                for cc, e in rest: out.write("".join(e))
            ok2, r2, n2 = traces.validate(cp2, casefile)
            run.cov["states"] += r2.distinct; run.cov["transitions"] += r2.generated
            if ok2: nacc += len(rest)
            elif not (r2.error or r2.timed_out):
                l2 = open(cp2).read().splitlines(); s2 = min(r2.depth, len(l2))
                st2 = max([i for i in range(s2) if l2[i].startswith('{"e":"Reset"')] or [0])
                nacc += sum(1 for x in l2[:st2] if x.startswith('{"e":"Reset"'))
                h2 = json.loads(l2[st2]) if '"Reset"' in l2[st2] else {}
                c2 = next((k for k in live if k.id == h2.get("cid")), None)
                ev2 = json.loads(l2[s2 - 1]) if s2 - 1 < len(l2) else {}
                rp2 = os.path.join(wd, "rejected2-%s" % os.path.basename(cp)); open(rp2, "w").write("\n".join(l2[st2:s2]) + "\n")
                run.violation("trace:crash" if ev2.get("e") == "Crash" else "trace:rejected",
                              "execution of %s (flex %s) is not a behaviour of the specification: event #%d %s is not explained"
                              % (c2.src.get("name") if c2 else "?", " ".join(scanner.flex_args(c2.cfg)) if c2 else "?", s2 - st2, json.dumps(ev2)[:300]),
                              dict(cfg=c2.cfg if c2 else None, events=l2[st2:s2][-12:], reset=h2), ([c2.gen["l"]] if c2 else []) + [rp2, casefile])
    run.cov["traces_validated_against_impl"] += nacc
    if work and len(run.cov["samples"]) < 4:
        c, jobs, tf = work[0]
        try:
            run.sample(dict(kind="trace", rules_file_excerpt=open(c.gen["l"]).read().split("%%")[1].strip().splitlines()[:8],
                            input=list(jobs[0]["input"]), read_sizes=jobs[0]["sched"], script=traces.ops_csv(jobs[0]["ops"]),
                            events=open(tf).read().splitlines()[:10]))
        except Exception:
            pass
    run.unit(tag, executions=nexec, accepted=nacc, accepted_by_equality_with_validated_execution=nequal,
             validated_by_tlc=len(tovalidate), events=nev, scanners=len(live), rule_set_groups=len(groups))


# ------------------------------------------------------------------ allocation ledger
def validate_heap(run, heapfiles, tag):
    """heapfiles: list of (case, path).  The ledger of every process must be a behaviour of FlexHeap."""
    files = [(c, p) for c, p in heapfiles if os.path.exists(p) and os.path.getsize(p) > 0]
    if not files:
        return 0
    nled = 0
    def one(x):
        c, p = x
        n = sum(1 for _ in open(p))
        r = tlc.run("Trace_Heap", env={"TRACE": p}, workers=1, timeout=300)
        return c, p, n, r
    with cf.ThreadPoolExecutor(max(1, NCPU // 2)) as ex:
        res = list(ex.map(one, files))
    for c, p, n, r in res:
        run.cov["states"] += r.distinct; run.cov["transitions"] += r.generated
        if r.rc == 0 and r.depth == n + 1:
            nled += 1; continue
        if r.error or r.timed_out:
            run.error("Trace_Heap failed on %s: %s" % (p, (r.error or "timeout")[:600])); continue
        lines = open(p).read().splitlines()
        stuck = min(r.depth, len(lines))
        run.violation("heap:rejected",
                      "allocation ledger of %s (flex %s) is not a behaviour of FlexHeap: event #%d %s not explained (previous: %s)"
                      % (c.src.get("name"), " ".join(scanner.flex_args(c.cfg)), stuck, lines[stuck - 1][:200], " ".join(lines[max(0, stuck - 4):stuck - 1])[:400]),
                      dict(cfg=c.cfg, events=lines[max(0, stuck - 15):stuck]), [c.gen["l"], p])
    run.unit(tag, ledgers=len(files), accepted=nled)
    return nled


def fault_unit(run, cases, rng, per_case=3, tag="faults", max_points=40):
    """single-fault enumeration: for each scenario a clean run counts allocation requests A and read
    attempts R; then one run per k <= A with the k-th request refused, and per read index an EINTR
    (must be transparent) and an EIO (must be reported).  Scanner traces go to Trace_Scanner, ledgers
    to Trace_Heap."""
    wd = os.path.join(run.work, tag); os.makedirs(wd, exist_ok=True)
    live = [c for c in cases if c.gen and c.status == "ok" and not c.dangerous]
    if not live: return
    casefile = os.path.join(wd, "cases.ndjson")
    with open(casefile, "w") as f:
        for c in live: f.write(json.dumps({"id": c.id, "src": c.src}) + "\n")
    plans = []
    for ci, c in enumerate(live):
        c.alphabet = traces.alphabet_of(c.src); c._ci = ci
        for k, inp in enumerate(cover_inputs(c, rng, per_case)):
            nf = 2
            bs = traces.BufScript(rng, c, nf)
            pure = rng.random() < 0.4      # plain action scripts, one buffer: EINTR must be completely transparent
            job = dict(input=inp + bytes(rng.choice(c.alphabet) for _ in range(6)), files=[bytes(rng.choice(c.alphabet) for _ in range(4))],
                       sched=rng.choice([[1], [2], [3, 1]]), ops=traces.gen_script(rng, c) if pure else bs.action_script(rng.randint(2, 6)),
                       outs=[] if pure else bs.outer_script(rng.randint(0, 3)),
                       wraps=[("T", 1)] if pure else (bs.wrap_script(2) if c.cfg.get("userwrap") else []), pure=pure,
                       bufsize=rng.choice([0, 2, 8]), initsc=0,
                       reset=dict(traces.reset_fields(c, ci + 1), cid=c.id, pure=pure))
            plans.append((c, job, os.path.join(wd, "clean-%s-%d.ndjson" % (c.id, k))))
        if c.cfg.get("stack", True) and c.cfg.get("stack") != "no":
            # a start-condition stack that has to grow (more than YY_START_STACK_INCR pushes): its allocations are fault points too
            nsc = len(c.src["scs"])
            deep = [("P", rng.randrange(nsc)) for _ in range(27)] + [("-", 0)] + [("P", rng.randrange(nsc)) for _ in range(26)] + [("O", 0)] * 6 + [("-", 0)]
            job = dict(input=bytes(rng.choice(c.alphabet) for _ in range(8)), files=[b""], sched=[3], ops=deep, outs=[], wraps=[("T", 1)], pure=True,
                       bufsize=0, initsc=0, reset=dict(traces.reset_fields(c, ci + 1), cid=c.id, pure=True))
            plans.append((c, job, os.path.join(wd, "clean-%s-deep.ndjson" % c.id)))
        if c.cfg.get("reject") and c.cfg.get("flavour", "nr") in ("nr", "r"):
            # the REJECT state buffer has to grow when a buffer larger than any seen so far becomes current: scanning starts on a short
            # in-memory buffer, then an action creates and pushes a file buffer - that growth is a fault point as well
            job = dict(input=bytes(rng.choice(c.alphabet) for _ in range(8)), files=[bytes(rng.choice(c.alphabet) for _ in range(8))], sched=[3],
                       ops=[("n", 1), ("h", 0), ("-", 0)] + [("-", 0)] * 10, outs=[("s", 0), ("-", 0)] + [("-", 0)] * 6, wraps=[("T", 1)], pure=False,
                       bufsize=64, initsc=0, reset=dict(traces.reset_fields(c, ci + 1), cid=c.id, pure=False))
            plans.append((c, job, os.path.join(wd, "clean-%s-growrej.ndjson" % c.id)))
    with cf.ThreadPoolExecutor(NCPU) as ex:
        list(ex.map(lambda x: traces.run_jobs(x[0], [x[1]], x[2]), plans))
    work = []; expect = {}
    npoints = 0
    for c, job, tf in plans:
        ev = [json.loads(l) for l in open(tf, errors="replace")] if os.path.exists(tf) else []
        cnt = next((e for e in ev if e.get("e") == "Counts"), None)
        if not cnt: continue
        A, Rn = cnt["allocs"], cnt["reads"]
        jobs = []
        ks = list(range(1, A + 1)); rng.shuffle(ks)
        for k in sorted(ks[:max_points]):
            jobs.append(dict(job, failalloc=k, reset=dict(job["reset"], failalloc=k)))
        if not c.cfg.get("userread", True):
            js = list(range(1, Rn + 1)); rng.shuffle(js)
            for j in sorted(js[:max_points // 2]):
                jobs.append(dict(job, readfault="%d:4" % j, reset=dict(job["reset"], eintr=j)))
                jobs.append(dict(job, readfault="%d:5" % j, reset=dict(job["reset"], eio=j)))
        tfk = tf.replace("clean-", "fault-")
        work.append((c, jobs, tfk, traces.projection_noreads(open(tf, errors="replace").readlines())))
        npoints += len(jobs)
    with cf.ThreadPoolExecutor(NCPU) as ex:
        list(ex.map(lambda x: traces.run_jobs(x[0], x[1], x[2]), work))
    # scanner traces: clean + faulted, all validated by TLC
    tov = []
    for c, job, tf in plans:
        tov += [(c, e) for e in traces.split_executions(tf)]
    neintr = 0
    for c, jobs, tfk, cleanproj in work:
        exs = traces.split_executions(tfk)
        tov += [(c, e) for e in exs]
        for e in exs:
            if '"eintr"' in e[0] and '"pure": true' in e[0]:
                # (scenarios where several buffers read one file are only validated, not compared:
                #  which buffer gets which bytes legitimately depends on how much each read returns)
                # EINTR must be transparent: same events as the clean run once the fault line is dropped
                pr = [l for l in traces.projection_noreads(e) if not l.startswith('{"e":"ReadFault"')]
                cl = [l for l in cleanproj]
                a_ = [l for l in pr if not l.startswith('{"e":"Counts"')]; b_ = [l for l in cl if not l.startswith('{"e":"Counts"')]
                # (how much text sits in a small buffer depends on the portions the reads delivered, and with it whether
                #  yyunput() / a REJECT scanner meets the documented capacity errors: such an ending is judged by the
                #  trace specification alone, the events before it must still agree)
                if a_ and a_[-1].startswith('{"e":"Fatal"') and ('"pushback"' in a_[-1] or '"rejectoverflow"' in a_[-1]):
                    b_ = b_[:len(a_) - 1]; a_ = a_[:-1]
                if a_ != b_:
                    k_ = next((i for i in range(min(len(a_), len(b_))) if a_[i] != b_[i]), min(len(a_), len(b_)))
                    pr = a_[max(0, k_ - 3):k_ + 3]; cl = b_[max(0, k_ - 3):k_ + 3]
                    run.violation("fault:eintr", "a read interrupted by a signal (EINTR) changed the execution of %s (flex %s): %s"
                                  % (c.src.get("name"), " ".join(scanner.flex_args(c.cfg)), e[0][:300]),
                                  dict(cfg=c.cfg, got=pr[-8:], clean=cl[-8:]), [c.gen["l"]])
                neintr += 1
    nacc = _validate_list(run, tov, live, casefile, wd, "fault")
    run.cov["traces_validated_against_impl"] += nacc
    heaps = [(c, tf + ".heap") for c, job, tf in plans] + [(c, tfk + ".heap") for c, jobs, tfk, _ in work]
    validate_heap(run, heaps, tag + "-ledger")
    run.cov["evaluations"] += npoints
    for c, jobs, tfk, _ in work[:400]:
        for j in jobs: run._distinct.add(hash((c.id, j.get("failalloc"), j.get("readfault"), bytes(j["input"]))))
    run.unit(tag, scenarios=len(plans), fault_points=npoints, eintr_points=neintr, executions_accepted=nacc)


def _validate_list(run, tovalidate, live, casefile, wd, name, chunk=600):
    chunks = []
    for i in range(0, len(tovalidate), chunk):
        cp = os.path.join(wd, "%s-chunk-%d.ndjson" % (name, i // chunk))
        with open(cp, "w") as out:
            for c, e in tovalidate[i:i + chunk]: out.write("".join(e))
        chunks.append((cp, tovalidate[i:i + chunk]))
    nacc = 0
    pending = list(chunks)
    rounds = 0
    while pending and rounds < 6:
        rounds += 1
        with cf.ThreadPoolExecutor(max(1, min(NCPU // 2, len(pending)))) as ex:
            vres = list(ex.map(lambda ch: traces.validate(ch[0], casefile), pending))
        nxt = []
        for (cp, cj), (ok, r, n) in zip(pending, vres):
            run.cov["states"] += r.distinct; run.cov["transitions"] += r.generated
            if ok: nacc += len(cj); continue
            if r.error or r.timed_out:
                run.error("Trace_Scanner failed on %s: %s" % (cp, (r.error or "timeout")[:900])); continue
            lines = open(cp).read().splitlines()
            stuck = min(r.depth, len(lines))
            start = max([i for i in range(stuck) if lines[i].startswith('{"e":"Reset"')] or [0])
            nbefore = sum(1 for x in lines[:start] if x.startswith('{"e":"Reset"'))
            nacc += nbefore
            hdr = json.loads(lines[start]) if '"Reset"' in lines[start] else {}
            c = next((k for k in live if k.id == hdr.get("cid")), None)
            ev = json.loads(lines[stuck - 1]) if stuck - 1 < len(lines) else {}
            rp = os.path.join(wd, "rejected-%s-%d" % (os.path.basename(cp), rounds)); open(rp, "w").write("\n".join(lines[start:stuck]) + "\n")
            run.violation("trace:crash" if ev.get("e") == "Crash" else "trace:rejected",
                          "execution of %s (flex %s) is not a behaviour of the specification: event #%d %s is not explained"
                          % (c.src.get("name") if c else "?", " ".join(scanner.flex_args(c.cfg)) if c else "?", stuck - start, json.dumps(ev)[:300]),
                          dict(cfg=c.cfg if c else None, events=lines[start:stuck][-12:], reset=hdr), ([c.gen["l"]] if c else []) + [rp, casefile])
            rest = cj[nbefore + 1:]
            if rest:
                cp2 = cp + ".r%d" % rounds
                with open(cp2, "w") as out:
                    for cc, e in rest: out.write("".join(e))
                nxt.append((cp2, rest))
        pending = nxt
    return nacc


def model_unit(run, invariants=(), properties=(), tag="model"):
    """TLC on the abstract run-time machine itself (spec/MC_Scanner.tla): every input of length <= InLen over
    {a, b, newline}, every read schedule, every history of at most MaxOps edit/start-condition/buffer calls.
    A violation here is a defect of the specification (the code is bound to it by trace validation), so it is
    reported as an infrastructure error, never as a violation of the property by flex."""
    q = run.tier == "quick"
    inlen, maxops = (2, 2) if q else (3, 3)
    cfg = os.path.join(run.work, "MC_Scanner_%s.cfg" % tag)
    with open(cfg, "w") as f:
        f.write("SPECIFICATION MSpec\nCONSTANT RSets <- RSetsDef\nCONSTANTS InLen = %d\n MaxOps = %d\nVIEW MView\n" % (inlen, maxops))
        for i in invariants: f.write("INVARIANT %s\n" % i)
        for p in properties: f.write("PROPERTY %s\n" % p)
        f.write("CHECK_DEADLOCK FALSE\n")
    r = tlc.run("MC_Scanner", cfg=cfg, workers=4 if q else 12, timeout=600 if q else 3600, heap="8g")
    run.add_tlc(r)
    run.unit(tag, module="MC_Scanner", InLen=inlen, MaxOps=maxops, invariants=list(invariants), properties=list(properties),
             distinct=r.distinct, generated=r.generated, depth=r.depth, wall=round(r.wall, 1))
    if r.violated:
        run.error("MC_Scanner: %s is violated by the specification itself (InLen=%d, MaxOps=%d)" % (r.violated, inlen, maxops))
    elif not r.ok:
        run.error("MC_Scanner failed: %s" % ((r.error or r.out[-400:]) if not r.timed_out else "timeout"))
    return r


_pool = cf.ThreadPoolExecutor(max_workers=2)


def model_async(run, invariants=(), properties=(), tag="model"):
    return _pool.submit(model_unit, run, invariants, properties, tag)


def buffer_model_unit(run, tag="buffermodel"):
    """TLC on spec/FlexBuffer.tla (the concrete yy_ch_buf geometry below FlexScanner's streams): owned / user-owned /
    REJECT buffers of initial size 1..3.  A violation is a defect of the specification (exit 2), not of flex."""
    tot = 0
    for cfg in ("own", "own2", "user", "rej"):
        r = tlc.run("MC_Buffer", cfg="MC_Buffer_%s.cfg" % cfg, workers=2, timeout=600)
        run.add_tlc(r); tot += r.distinct
        if r.violated or not r.ok:
            run.error("MC_Buffer/%s: %s" % (cfg, r.violated or (r.error or "timeout")[:300]))
    run.unit(tag, module="FlexBuffer", configs=4, distinct=tot,
             invariants=["Bounds", "Sentinels", "Conservation", "NoJunk", "DoneOK", "OnlyDocumentedFatal"], properties=["GrowthOK", "Terminates", "Refines (FlexStream: the abstraction FlexScanner uses)"])

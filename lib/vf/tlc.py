"""Run TLC and read back what it explored."""
import os, signal, re, shutil, subprocess, tempfile, time

SPEC_DIR = os.path.join(os.path.dirname(os.path.abspath(__file__)), "..", "..", "spec")
JAR = "/opt/veriftools/tla/tla2tools.jar"


class TlcResult:
    def __init__(self):
        self.rc = None; self.out = ""; self.generated = 0; self.distinct = 0; self.depth = 0
        self.violated = None      # name of violated invariant / property, or None
        self.error = None         # evaluation / parse error text (model failure), or None
        self.last_state = {}      # variable -> printed value (last state of the error trace)
        self.trace_text = ""
        self.wall = 0.0
        self.timed_out = False
        self.post_failed = False

    @property
    def ok(self):
        return self.rc == 0 and not self.violated and not self.error


def _parse_states(text):
    """list of dicts var->value-text for an error trace"""
    states = []
    cur = None; var = None
    for line in text.splitlines():
        m = re.match(r"^State (\d+):", line)
        if m:
            cur = {}; states.append(cur); var = None; continue
        if cur is None: continue
        m = re.match(r"^(?:/\\ )?(\w+) = (.*)$", line)
        if m:
            var = m.group(1); cur[var] = m.group(2); continue
        if line.strip() == "":
            var = None
            continue
        if var is not None and not line.startswith("Error") and not re.match(r"^\d+ states generated", line):
            cur[var] += " " + line.strip()
    return states


def run(module, cfg=None, env=None, workers=4, timeout=900, simulate=None, depth=None, extra=(),
        heap="4g", spec_dir=SPEC_DIR, dfs=False, seed=None):
    r = TlcResult()
    md = tempfile.mkdtemp(prefix="tlcmd.", dir=os.environ.get("VERIF_SCRATCH", "/tmp"))
    e = dict(os.environ)
    if env: e.update({k: str(v) for k, v in env.items()})
    jopts = "-Xmx%s -Xss256m -XX:+UseParallelGC" % heap
    if dfs:
        jopts += " -Dtlc2.tool.queue.IStateQueue=StateDeque"
    cmd = ["java"] + jopts.split() + ["-cp", JAR + ":/opt/veriftools/tla/CommunityModules-deps.jar", "tlc2.TLC"]
    # use the wrapper's classpath if it exists (CommunityModules)
    cmd = ["tlc"]
    e["JAVA_TOOL_OPTIONS"] = (e.get("JAVA_TOOL_OPTIONS", "") + " " + jopts).strip()
    cmd += ["-workers", str(workers), "-metadir", md, "-noGenerateSpecTE"]
    if simulate:
        cmd += ["-simulate", "num=%d" % simulate]
    if depth:
        cmd += ["-depth", str(depth)]
    if seed is not None:
        cmd += ["-seed", str(seed)]
    cmd += list(extra)
    cmd += ["-config", cfg or (module + ".cfg"), module + ".tla"]
    t0 = time.time()
    try:
        # own process group: "tlc" is a wrapper script, and on a timeout the JVM behind it has to go as well
        pr = subprocess.Popen(cmd, cwd=spec_dir, env=e, stdout=subprocess.PIPE, stderr=subprocess.STDOUT,
                              text=True, errors="replace", start_new_session=True)
        try:
            out, _ = pr.communicate(timeout=timeout)
            r.rc = pr.returncode; r.out = out
        except subprocess.TimeoutExpired:
            try: os.killpg(pr.pid, signal.SIGKILL)
            except OSError: pass
            out, _ = pr.communicate()
            r.timed_out = True; r.rc = -9; r.out = out or ""
    finally:
        shutil.rmtree(md, ignore_errors=True)
    r.wall = time.time() - t0
    m = re.findall(r"(\d+) states generated, (\d+) distinct states found", r.out)
    if m:
        r.generated, r.distinct = int(m[-1][0]), int(m[-1][1])
    m = re.search(r"depth of the complete state graph search is (\d+)", r.out)
    if m: r.depth = int(m.group(1))
    m = re.search(r"Error: Invariant (\w+) is violated", r.out)
    if m: r.violated = m.group(1)
    m2 = re.search(r"Error: Action property (\w+) is violated", r.out) or re.search(r"Error: Temporal properties were violated", r.out)
    if m2 and not r.violated:
        r.violated = m2.group(1) if m2.groups() else "Temporal"
    if "Error: Deadlock reached" in r.out and not r.violated:
        r.violated = "Deadlock"
    if r.violated:
        i = r.out.find("Error:")
        r.trace_text = r.out[i:]
        st = _parse_states(r.trace_text)
        if st: r.last_state = st[-1]; r.states = st
    elif re.search(r"Error: Postcondition \w+ .* is false", r.out):
        r.post_failed = True
    elif r.rc != 0 and not r.timed_out:
        i = r.out.find("Error:")
        r.error = r.out[i:i + 3000] if i >= 0 else r.out[-3000:]
    return r


def ints(text):
    return [int(x) for x in re.findall(r"-?\d+", text or "")]

"""Conformance in the code -> spec direction: run really generated scanners
under scripted actions / read schedules, record ndjson traces, and have TLC
decide (spec/Trace_Scanner.tla) whether every execution is a behaviour of the
abstract machine FlexScanner."""
import concurrent.futures as cf
import json, os, random, subprocess, time
from . import tlc

NCPU = int(os.environ.get("VERIF_JOBS", "16"))


def default_interactive(cfg):
    t = cfg.get("tbl", "")
    if cfg.get("interactive") is not None:
        return bool(cfg["interactive"])
    return not ("f" in t or "F" in t)


def reset_fields(case, rsidx, T=None, strictread=False):
    cfg = case.cfg
    T = T or case.T
    return {"rs": rsidx, "interactive": default_interactive(cfg), "array": bool(cfg.get("array")),
            "linenoopt": bool(cfg.get("yylineno", True)) and cfg.get("yylineno") != "no",
            "bolneeded": any(r["bol"] for r in case.src["rules"]),
            "rejectmode": bool(T["reject"]) if T else bool(cfg.get("reject")), "strictread": strictread,
            "reentrant": cfg.get("flavour") in ("r", "c99"), "userwrap": bool(cfg.get("userwrap")),
            "failalloc": 0, "stdio": (not cfg.get("userread", True)) and not cfg.get("useread"), "yylmax": cfg.get("yylmax") or 8192}


def gen_script(rng, case, maxops=24, p_op=0.5):
    """random per-action operation script (csv of op,arg pairs)"""
    cfg = case.cfg; nsc = len(case.src["scs"])
    ops = []
    nact = rng.randint(1, 12)
    for _ in range(nact):
        k = 0
        tainted = False   # after yyunput in %pointer mode yytext is documented as trashed
        edited2 = False
        did_more = False
        edited = False    # REJECT is only scripted before the action edits the input stream
        while rng.random() < p_op and k < 4 and len(ops) < maxops:
            k += 1
            choices = ["B", "T", "A", "N"]
            if not did_more: choices += ["I", "U"]   # yymore() + input()/unput() in one action: undocumented
            # yyless()/yymore()/REJECT are only scripted before yyunput()/yyinput() in the
            # same action: the manual defines them on the current token, and the
            # skeleton's yyless/REJECT restore positions that unput/input have moved
            if not edited2 and not did_more: choices += ["L", "L"]   # yyless() after yymore() in one action: unclear in the manual
            if cfg.get("yymore") and cfg.get("yymore") != "no" and not edited2: choices.append("M")
            if cfg.get("stack", True) and cfg.get("stack") != "no": choices += ["P", "O", "Q"]
            if cfg.get("reject") and cfg.get("reject") != "no" and not edited: choices += ["R", "R"]
            o = rng.choice(choices)
            if o in ("L", "U", "I", "M"): edited = True
            if o in ("U", "I"): edited2 = True
            if o == "L": ops.append(("L", rng.randint(0, 4)))
            elif o == "M": ops.append(("M", 0)); did_more = True
            elif o == "U":
                ops.append(("U", rng.choice(case.alphabet))); tainted = not cfg.get("array")
            elif o == "I": ops.append(("I", 0))
            elif o == "B": ops.append(("B", rng.randrange(nsc)))
            elif o == "P": ops.append(("P", rng.randrange(nsc)))
            elif o == "O": ops.append(("O", 0))
            elif o == "Q": ops.append(("Q", 0))
            elif o == "A": ops.append(("A", rng.choice((0, 0, 1, 1, 2, 3))))   # "a non-zero argument": not only 1
            elif o == "N": ops.append(("N", rng.choice((0, 1, 3, 40))))     # the user sets the line number
            elif o == "R": ops.append(("R", 0)); break
            elif o == "T": ops.append(("T", 0)); break
        if not ops or ops[-1][0] not in ("R", "T"):
            ops.append(("-", 0))
    return ops


def ops_csv(ops):
    return ",".join("%s,%d" % (o, a) for o, a in ops) or "-,0"


def alphabet_of(src):
    """bytes mentioned by the rule set (flat scan of the JSON) + newline"""
    out = set([10])
    def walk(a):
        if isinstance(a, list):
            if a and a[0] == "chr": out.add(a[1])
            elif a and a[0] == "str": out.update(a[1])
            elif a and a[0] == "b": out.add(a[1])
            elif a and a[0] == "r": out.update([a[1], a[2], (a[1] + a[2]) // 2])
            else:
                for x in a: walk(x)
        elif isinstance(a, dict):
            for v in a.values(): walk(v)
    walk(src["rules"]); walk(src.get("defs", []))
    if src.get("sevenbit"): out = {b for b in out if b < 128}
    return sorted(out)


ENV = dict(ASAN_OPTIONS="detect_leaks=1:abort_on_error=0:exitcode=99",
           UBSAN_OPTIONS="print_stacktrace=1:halt_on_error=1:exitcode=98")


def job_line(job):
    files = [job["input"]] + list(job.get("files", []))
    rj = json.dumps(dict(job["reset"], sched=",".join(map(str, job["sched"])), ops=ops_csv(job["ops"]),
                         initsc=job.get("initsc", 0), outs=ops_csv(job.get("outs", [])), wraps=ops_csv(job.get("wraps", [])),
                         failalloc=job.get("failalloc", 0), readfault=job.get("readfault", "")))[1:-1]
    return "\t".join([rj, ";".join(f.hex() for f in files), ",".join(map(str, job["sched"])), ops_csv(job["ops"]),
                      str(job.get("bufsize", 0)), str(job.get("initsc", 0)),
                      ops_csv(job.get("outs", [])), ops_csv(job.get("wraps", [])),
                      str(job.get("failalloc", 0)), job.get("readfault", "")]) + "\n"


def count_resets(tracefile):
    try:
        return sum(1 for l in open(tracefile, errors="replace") if l.startswith('{"e":"Reset"'))
    except FileNotFoundError:
        return 0


def run_jobs(case, jobs, tracefile, timeout=60, exe=None, extra_env=None):
    """all jobs of one scanner in as few processes as possible (the scanner is
    destroyed and reused between jobs); a job that ends the process (fatal
    error hook, sanitizer report) is followed by a fresh process"""
    jf = tracefile + ".jobs"
    with open(jf, "w") as f:
        for job in jobs: f.write(job_line(job))
    env = dict(os.environ, **ENV)
    if case is not None and getattr(case, "gen", None) and case.gen.get("tables"): env["VF_TABLES"] = case.gen["tables"]
    if extra_env: env.update(extra_env)
    first = 0; crashes = 0
    while first < len(jobs):
        cmd = [exe or case.gen["exe"], "many", tracefile, jf, str(first)]
        try:
            p = subprocess.run(cmd, stdin=subprocess.DEVNULL, stdout=subprocess.DEVNULL, stderr=subprocess.PIPE,
                               timeout=timeout, env=env)
            rc = p.returncode; err = p.stderr.decode(errors="replace")
        except subprocess.TimeoutExpired:
            rc = -9; err = "timeout after %ds" % timeout
        done = count_resets(tracefile)
        if rc != 0:
            crashes += 1
            with open(tracefile, "a") as f:
                if done <= first:   # died before the job's Reset line was written
                    f.write(json.dumps({"e": "Reset", "files": [[]], "bufsize": 0, "lost": True, **jobs[first]["reset"]}) + "\n")
                    done = first + 1
                f.write(json.dumps({"e": "Crash", "rc": rc, "msg": err[:1500] + " ... " + err[-300:]}) + "\n")
        if done <= first:
            done = first + 1     # no progress (should not happen): skip the job
        first = done
    return crashes


def split_executions(tracefile):
    """list of lists of lines, one per execution (starting at its Reset)"""
    out = []
    try:
        for l in open(tracefile, errors="replace"):
            if l.startswith('{"e":"Reset"'):
                out.append([])
            if out: out[-1].append(l)
    except FileNotFoundError:
        pass
    return out


def projection(lines):
    """an execution equal to one TLC has accepted is accepted: everything but the Reset line (which names the
    scanner).  Reads are part of it - they carry the buffer geometry that Trace_Scanner!Geometry decides."""
    return lines[1:]


def projection_noreads(lines):
    """what must not depend on when and in which portions the input arrives: everything but the reads"""
    return [l for l in lines[1:] if not l.startswith('{"e":"Read"')]


def validate(trace_path, cases_path, timeout=600):
    n = sum(1 for _ in open(trace_path))
    r = tlc.run("Trace_Scanner", env={"TRACE": trace_path, "CASES": cases_path}, workers=1, timeout=timeout)
    accepted = (r.rc == 0 and r.depth == n + 1)
    return accepted, r, n


# ------------------------------------------------------------------ buffer / end-of-input scenarios
class BufScript:
    """generates action / outer / yywrap scripts over several input sources and
    buffers.  Buffer ids are handed out by the harness in creation order; scripts
    name buffers by small explicit ids (skipped by the harness when no such buffer
    exists) or by 0 = the most recently created one."""

    def __init__(self, rng, case, nfiles):
        self.rng = rng; self.c = case; self.nf = nfiles
        self.nsc = len(case.src["scs"])

    def anybuf(self):
        return self.rng.choice([0, 1, 2, 2, 3, 4, 5])

    def bufops(self, n=2):
        out = []
        for _ in range(n):
            r = self.rng.random()
            if r < 0.30:
                k = self.rng.choice("nnsyz"); out.append((k, self.rng.randrange(self.nf)))
                # (not always made current at once: a buffer may be created ahead of its use)
                if k == "n" and self.rng.random() < 0.7: out.append((self.rng.choice("wh"), 0))
            elif r < 0.45: out.append((self.rng.choice("wh"), self.anybuf()))
            elif r < 0.60: out.append(("j", 0))
            elif r < 0.70: out.append(("f", self.anybuf()))
            elif r < 0.78: out.append(("d", self.anybuf()))
            elif r < 0.84: out.append(("Z", self.rng.randrange(self.nf)))
            elif r < 0.90: out.append(("r", self.rng.randrange(self.nf)))
            else: out.append((self.rng.choice("BPOQN"), self.rng.randrange(self.nsc)))
        return out

    def action_script(self, nact=8, p=0.5):
        ops = []
        for _ in range(nact):
            if self.rng.random() < 0.3:
                ops.append((self.rng.choice("BPOQ"), self.rng.randrange(self.nsc)))
            if self.rng.random() < 0.25:
                ops += [("I", 0)] * self.rng.randint(1, 4)      # yyinput(): may run into the end of the current buffer
            if self.rng.random() < p:
                ops += self.bufops(self.rng.randint(1, 2))
            ops.append(("T", 0) if self.rng.random() < 0.25 else ("-", 0))
        return ops

    def outer_script(self, ncalls=6, p=0.4):
        ops = [("-", 0)] if self.rng.random() < 0.6 else self.bufops(1) + [("-", 0)]   # before the first call
        for _ in range(ncalls):
            if self.rng.random() < p:
                ops += self.bufops(self.rng.randint(1, 2))
            if self.rng.random() < 0.3:
                ops.append(("c", 0))
            ops.append(("-", 0))
        return ops

    def wrap_script(self, ncalls=5):
        """each yywrap() call either says stop, or really provides a source"""
        ops = []
        for _ in range(ncalls):
            r = self.rng.random()
            if r < 0.22: ops += [("T", 1)]
            elif r < 0.36: ops += [("k", 0), ("T", 0)]      # include pattern: pop back to the including buffer
            elif r < 0.50: ops += [("i", self.rng.randrange(self.nf)), ("T", 0)]
            elif r < 0.72: ops += [("n", self.rng.randrange(self.nf)), ("w", 0), ("T", 0)]
            elif r < 0.80: ops += [(self.rng.choice("syz"), self.rng.randrange(self.nf)), ("T", 0)]
            elif r < 0.90:
                k = self.rng.randrange(self.nf)
                ops += [("e", k), ("r", k), ("T", 0)]            # reopen a source and restart on it
            else:
                # the manual's pattern: delete the exhausted buffer, then install the next source
                ops += [("J", 0), (self.rng.choice("sy"), self.rng.randrange(self.nf)), ("T", 0)]
        return ops

    def after_end(self, n=3):
        """what the caller does after yylex() returned 0"""
        ops = [("-", 0)]
        for _ in range(n):
            r = self.rng.random()
            if r < 0.25: ops += [("c", 0), ("-", 0)]
            elif r < 0.5: ops += [("i", self.rng.randrange(self.nf)), ("c", 0), ("-", 0)]
            elif r < 0.7: ops += [("r", self.rng.randrange(self.nf)), ("c", 0), ("-", 0)]
            elif r < 0.88:
                # the same stream object is opened again and handed to the scanner once more
                k = self.rng.randrange(self.nf)
                ops += [("e", k), ("r", k), ("c", 0), ("-", 0)]
            else: ops += [("-", 0)]
        return ops

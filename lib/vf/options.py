"""C19: probes of flex's options.  Each probe builds a small specification with
the option given on the command line or as %option, generates / compiles / runs
it and evaluates the option's documented observable effect."""
import os, re, subprocess, tempfile, shutil, hashlib

MAIN = 'int main(void) { while (yylex()) ; printf("hits=%d pre=%d post=%d init=%d\\n", hits, npre, npost, ninit); return 0; }'


class B:
    """one build: flex + cc (+ run)"""
    def __init__(self, flexdir, fileopt="", cli=(), top="", act="", sect3=MAIN, rules=None, cxx=False, run=True, inp=b"aa\nA\n", link=True,
                 cflags=(), base="%option noyywrap", outname=None, extra_src=None, decls="static int hits, npre, npost, ninit;"):
        self.wd = tempfile.mkdtemp(prefix="opt.", dir=os.environ.get("VERIF_SCRATCH", "/tmp"))
        rules = rules or ["a+   { hits++; %s }" % act, "\\n   ;", ".    ;"]
        text = "\n".join([(base + " " + fileopt).strip(), "%{", "#include <stdio.h>", decls, top, "%}", "%%"] + rules + ["%%", sect3, ""])
        open(os.path.join(self.wd, "p.l"), "w").write(text)
        self.out = outname or ("p.cc" if cxx else "p.c")
        cmd = [os.path.join(flexdir, "flex")] + list(cli) + ([] if outname == "" else ["-o", self.out]) + ["p.l"]
        p = subprocess.run(cmd, cwd=self.wd, stdout=subprocess.PIPE, stderr=subprocess.PIPE, text=True, errors="replace", env=dict(os.environ, LC_ALL="C"), timeout=60)
        self.frc, self.ferr, self.fout = p.returncode, p.stderr, p.stdout
        self.ctext = ""; self.crc = -1; self.cout = ""; self.rrc = -1; self.rout = ""; self.rerr = ""; self.syms = set(); self.allsyms = set()
        cpath = os.path.join(self.wd, self.out)
        if self.frc == 0 and os.path.exists(cpath):
            self.ctext = open(cpath, errors="replace").read()
            cc = ["g++" if cxx else "gcc", "-w"] + list(cflags) + ["-I", flexdir, "-c", "-o", "p.o", self.out]
            q = subprocess.run(cc, cwd=self.wd, stdout=subprocess.PIPE, stderr=subprocess.STDOUT, text=True, errors="replace")
            self.crc, self.cout = q.returncode, q.stdout
            if self.crc == 0:
                nm = subprocess.run(["nm", "-g", "--defined-only", "p.o"], cwd=self.wd, stdout=subprocess.PIPE, text=True).stdout
                self.syms = {l.split()[-1] for l in nm.splitlines() if len(l.split()) == 3}
                nma = subprocess.run(["nm", "--defined-only", "p.o"], cwd=self.wd, stdout=subprocess.PIPE, text=True).stdout
                self.allsyms = {l.split()[-1] for l in nma.splitlines() if len(l.split()) == 3}
                if link:
                    srcs = ["p.o"]
                    if extra_src:
                        open(os.path.join(self.wd, "x.c"), "w").write(extra_src); srcs.append("x.c")
                    l = subprocess.run(["g++" if cxx else "gcc", "-w", "-I", flexdir, "-o", "p"] + srcs, cwd=self.wd, stdout=subprocess.PIPE, stderr=subprocess.STDOUT, text=True, errors="replace")
                    self.lrc, self.lout = l.returncode, l.stdout
                    if self.lrc == 0 and run:
                        r = subprocess.run(["./p"], cwd=self.wd, input=inp, stdout=subprocess.PIPE, stderr=subprocess.PIPE, timeout=20)
                        self.rrc, self.rout, self.rerr = r.returncode, r.stdout.decode(errors="replace"), r.stderr.decode(errors="replace")
                else:
                    self.lrc = 0; self.lout = ""
    def digest(self):
        return hashlib.sha1(self.ctext.encode("latin-1", "replace")).hexdigest() if self.ctext else ""
    def close(self): shutil.rmtree(self.wd, ignore_errors=True)


def probes(fd):
    """list of (opt, cli args or None, %option text or None, predicate(B) -> (bool, detail), build kwargs)"""
    P = []
    def add(opt, cli, fileopt, pred, **kw): P.append((opt, cli, fileopt, pred, kw))
    okrun = lambda b: b.frc == 0 and b.crc == 0 and getattr(b, "lrc", 1) == 0 and b.rrc == 0
    add("prefix", ["-Pzz"], 'prefix="zz"', lambda b: (b.crc == 0 and b.syms and all(not s.startswith("yy") for s in b.syms) and "zzlex" in b.syms, sorted(b.syms)[:8]), run=False, link=False)
    add("main", ["--main"], "main", lambda b: (okrun(b), (b.lout if hasattr(b, "lout") else b.cout)[-200:]), sect3="")
    add("reentrant", ["-R"], "reentrant", lambda b: (okrun(b) and "hits=1" in b.rout, b.cout[-200:] + b.rout),
        sect3='int main(void) { yyscan_t s; yylex_init(&s); while (yylex(s)) ; yylex_destroy(s); printf("hits=%d\\n", hits); return 0; }')
    add("bisonbridge", ["--bison-bridge", "-R"], "bison-bridge reentrant", lambda b: (okrun(b), b.cout[-300:]),
        top="typedef int YYSTYPE;", sect3='int main(void) { yyscan_t s; YYSTYPE v; yylex_init(&s); while (yylex(&v, s)) ; yylex_destroy(s); return 0; }')
    add("bisonlocations", ["--bison-bridge", "--bison-locations", "-R"], "bison-bridge bison-locations reentrant", lambda b: (okrun(b), b.cout[-300:]),
        top="typedef int YYSTYPE; typedef struct { int l; } YYLTYPE;", sect3='int main(void) { yyscan_t s; YYSTYPE v; YYLTYPE l; yylex_init(&s); while (yylex(&v, &l, s)) ; yylex_destroy(s); return 0; }')
    add("stack", ["--stack"], "stack", lambda b: (okrun(b), b.cout[-200:]), act="yy_push_state(0); yy_pop_state(); (void)yy_top_state();")
    add("array", ["--array"], "array", lambda b: (okrun(b) and "arr=1" in b.rout, b.rout), sect3='int main(void) { while (yylex()) ; printf("arr=%d\\n", sizeof(yytext) > sizeof(char *)); return 0; }')
    add("pointer", ["--pointer"], "pointer", lambda b: (okrun(b) and "arr=0" in b.rout, b.rout), sect3='int main(void) { while (yylex()) ; printf("arr=%d\\n", sizeof(yytext) > sizeof(char *)); return 0; }')
    add("yylineno", ["--yylineno"], "yylineno", lambda b: (okrun(b) and "line=3" in b.rout, b.rout), sect3='int main(void) { while (yylex()) ; printf("line=%d\\n", yylineno); return 0; }')
    add("debug", ["-d"], "debug", lambda b: (okrun(b) and "--accepting rule" in b.rerr, b.rerr[:100]))
    add("nodefault", ["-s"], "nodefault", lambda b: (b.frc == 0 and b.crc == 0 and b.rrc != 0 and "jammed" in b.rerr, b.rerr[:100]), rules=["a+   { hits++; }"], inp=b"aab")
    add("nodefault_cxx", ["-s", "-+"], "nodefault c++", lambda b: (b.frc == 0 and b.crc == 0 and b.rrc != 0 and "jammed" in b.rerr, (b.cout + b.rerr)[:160]), cxx=True,
        rules=["a+   { hits++; }"], inp=b"aab", sect3='int main() { yyFlexLexer l; while (l.yylex()) ; return 0; }')
    add("caseinsensitive", ["-i"], "case-insensitive", lambda b: (okrun(b) and "hits=2" in b.rout, b.rout))
    add("stdinit", ["--stdinit"], "stdinit", lambda b: (okrun(b) and "in=1" in b.rout, b.rout), sect3='int main(void) { printf("in=%d\\n", yyin == stdin); return 0; }')
    add("nounistd", ["--nounistd"], "nounistd", lambda b: (b.frc == 0 and "#include <unistd.h>" not in b.ctext, ""), run=False, link=False)
    add("noline", ["-L"], "noline", lambda b: (b.frc == 0 and not re.search(r"^#line", b.ctext, re.M), ""), run=False, link=False)
    add("nowarn", ["-w"], "nowarn", lambda b: (b.frc == 0 and "warning" not in b.ferr, b.ferr[:100]), rules=["a  ;", "a  ;", ".|\\n ;"], run=False, link=False)
    add("cxx", ["-+"], "c++", lambda b: (okrun(b), b.cout[-300:]), cxx=True, decls="static int hits, npre, npost, ninit;",
        sect3='int main() { yyFlexLexer l; while (l.yylex()) ; return 0; }')
    add("emitc99", ["-e", "c99"], 'emit="c99"', lambda b: (b.frc == 0 and b.crc == 0, b.cout[-300:]), run=False, link=False, act="", sect3="", rules=["a+   { hits++; }", "\\n   ;", ".    ;"])
    add("outfile", ["-o", "named.c"], 'outfile="named.c"', lambda b: (b.frc == 0 and os.path.exists(os.path.join(b.wd, "named.c")), b.ferr[:100]), outname="", run=False, link=False)
    add("headerfile", ["--header-file=p.h"], 'header-file="p.h"', lambda b: _header_ok(b, fd), run=False, link=False)
    add("backup", ["-b"], "backup", lambda b: (b.frc == 0 and os.path.exists(os.path.join(b.wd, "lex.backup")), ""), run=False, link=False)
    add("perfreport", ["-p"], "perf-report", lambda b: (b.frc == 0 and "performance penalty" in b.ferr, b.ferr[:60]), run=False, link=False,
        base="%option noyywrap reject", act="yyreject();")
    add("verbose", ["-v"], "verbose", lambda b: (b.frc == 0 and ("DFA states" in b.ferr or "DFA states" in b.fout), (b.ferr + b.fout)[:60]), run=False, link=False)
    inter = 'int main(void) { yylex(); printf("int=%d\\n", YY_CURRENT_BUFFER ? YY_CURRENT_BUFFER->yy_is_interactive : -1); return 0; }'
    add("alwaysinteractive", ["--always-interactive"], "always-interactive", lambda b: (okrun(b) and "int=1" in b.rout, b.rout + b.cout[-100:]), sect3=inter)
    add("neverinteractive", ["--never-interactive"], "never-interactive", lambda b: (okrun(b) and "int=0" in b.rout, b.rout + b.cout[-100:]), sect3=inter)
    add("yywrap", None, "yywrap", lambda b: (okrun(b) and "wrapped=1" in b.rout, b.rout + getattr(b, "lout", "")[-200:]), base="%option",
        top="static int wrapped;", sect3='int yywrap(void) { wrapped = 1; return 1; }\nint main(void) { while (yylex()) ; printf("wrapped=%d\\n", wrapped); return 0; }')
    add("yymore", None, "yymore", lambda b: (okrun(b), b.cout[-200:]), act="yymore();")
    add("reject", None, "reject", lambda b: (okrun(b), b.cout[-200:]), act="if (yyleng > 5) yyreject();")
    add("extratype", None, 'reentrant extra-type="struct foo *"', lambda b: (b.frc == 0 and b.crc == 0, b.cout[-300:]), cflags=["-Werror=incompatible-pointer-types", "-Werror=int-conversion"],
        top="struct foo { int x; };", sect3='int main(void) { yyscan_t s; struct foo f, *g; yylex_init_extra(&f, &s); g = yyget_extra(s); (void)g; yylex_destroy(s); return 0; }', run=False, link=False)
    add("bufsize", None, "bufsize=777", lambda b: (okrun(b) and "buf=777" in b.rout, b.rout), sect3='int main(void) { printf("buf=%d\\n", (int)YY_BUF_SIZE); return 0; }')
    add("yydecl", None, 'yydecl="int mylex(void)"', lambda b: (okrun(b) and "hits=1" in b.rout, b.rout + b.cout[-200:]), sect3='int main(void) { while (mylex()) ; printf("hits=%d\\n", hits); return 0; }')
    add("yyterminate", None, 'yyterminate="return 42"', lambda b: (okrun(b) and "ret=42" in b.rout, b.rout), sect3='int main(void) { int r = yylex(); printf("ret=%d\\n", r); return 0; }', inp=b"")
    add("yyterminate_c99", None, 'emit="c99" yyterminate="return 42"', lambda b: (okrun(b) and "ret=42" in b.rout, b.rout + b.cout[-200:]),
        sect3='int main(void) { yyscan_t s; int r; yylex_init(&s); r = yylex(s); printf("ret=%d\\n", r); yylex_destroy(s); return 0; }', inp=b"")
    add("preaction", None, 'pre-action="npre++;"', lambda b: (okrun(b) and "pre=4" in b.rout, b.rout))
    add("preaction_bol", None, 'pre-action="npre++;"', lambda b: (okrun(b) and "pre=4" in b.rout, b.rout),
        rules=["^a+   { hits++; }", "a+  { hits++; }", "\\n   ;", ".    ;"])
    add("postaction", None, 'post-action="npost++; break;"', lambda b: (okrun(b) and "post=" in b.rout and "post=0" not in b.rout, b.rout))
    add("userinit", None, 'user-init="ninit++;"', lambda b: (okrun(b) and "init=1" in b.rout, b.rout))
    add("noyyalloc", None, "noyyalloc noyyrealloc noyyfree", lambda b: (okrun(b) and "mine=1" in b.rout, b.rout + getattr(b, "lout", "")[-200:]),
        top="#include <stdlib.h>\nstatic int mine;", sect3='void *yyalloc(yy_size_t n) { mine = 1; return malloc(n); }\nvoid *yyrealloc(void *p, yy_size_t n) { return realloc(p, n); }\nvoid yyfree(void *p) { free(p); }\n'
        'int main(void) { while (yylex()) ; printf("mine=%d\\n", mine); return 0; }')
    add("noyyread", None, "noyyread", lambda b: (okrun(b) and "fed=1" in b.rout, b.rout + b.cout[-300:]),
        top="static int fed;", sect3='int yyread(char *buf, size_t max) { if (fed) return 0; fed = 1; buf[0] = \'a\'; return 1; }\nint main(void) { while (yylex()) ; printf("fed=%d\\n", fed); return 0; }')
    add("nofunction", None, "noyy_scan_string noyy_scan_bytes noyy_scan_buffer", lambda b: (b.crc == 0 and not ({"yy_scan_string", "yy_scan_bytes", "yy_scan_buffer"} & b.syms), sorted(b.syms)[:30]), run=False, link=False)
    # the routines are compiled out (#define YY_NO_YYINPUT / no yyunput_r at all): judged on the object file, static functions
    # included, not on the text, which still holds the source of yyinput() inside the #ifndef
    add("noinput", None, "noinput nounput", lambda b: (b.crc == 0 and b.allsyms and not ({"yyinput", "yyunput_r", "yyunput"} & b.allsyms), sorted(s for s in b.allsyms if "put" in s)), run=False, link=False)
    add("yyclass", ["-+", "--yyclass=Mine"], 'c++ yyclass="Mine"', lambda b: (b.frc == 0 and "Mine::yylex" in b.ctext, ""), cxx=True, run=False, link=False,
        top="#include <FlexLexer.h>\nclass Mine : public yyFlexLexer { public: int yylex(); };", sect3="")
    add("tablesfile", ["--tables-file=p.tables"], 'tables-file="p.tables"', lambda b: (b.frc == 0 and os.path.exists(os.path.join(b.wd, "p.tables")), b.ferr[:100]), run=False, link=False)
    add("lexcompat", ["-l"], "lex-compat", lambda b: (okrun(b) and "arr=1" in b.rout, b.rout + b.cout[-200:]), sect3='int main(void) { while (yylex()) ; printf("arr=%d\\n", sizeof(yytext) > sizeof(char *)); return 0; }')
    add("posixcompat", ["-X"], "posix-compat", lambda b: (okrun(b) and "hits=1" in b.rout, b.rout), rules=["ab{2}   { hits++; }", "\\n ;", ". ;"], inp=b"abab\n")
    # a prefixed scanner finds its own set in a serialized tables file (the set is named <prefix>tables)
    add("prefix_tablesfile", ["-Pzz", "--tables-file=p.tables"], 'prefix="zz" tables-file="p.tables"',
        lambda b: (b.frc == 0 and b.crc == 0 and getattr(b, "lrc", 1) == 0 and b.rrc == 0 and "load=0 hits=1" in b.rout, (b.rout + b.rerr + b.cout)[-200:]),
        sect3='int main(void) { FILE *f = fopen("p.tables", "rb"); int r = f ? zztables_fload(f) : -9; printf("load=%d ", r); if (r == 0) { while (zzlex()) ; } printf("hits=%d\\n", hits); zztables_destroy(); return 0; }',
        rules=["a+   { hits++; }", "\\n   ;", ".    ;"])
    # character-set size and table representation: the options and the documented defaults
    hi = ["[\\x80-\\xff]+   { hits++; }", "\\n   ;", ".    ;"]
    hiin = b"\x80\xff\n"
    acc = lambda b: (okrun(b) and "hits=1" in b.rout, (b.ferr + b.rout)[:160])
    ref = lambda b: (b.frc != 0 and "-8" in b.ferr, (b.ferr or "accepted")[:160])
    add("8bit", ["-8", "-f"], "8bit full", acc, rules=hi, inp=hiin)
    add("7bit", ["-7"], "7bit", ref, rules=hi, inp=hiin, run=False, link=False)
    add("default_8bit", [], "", acc, rules=hi, inp=hiin)
    add("default_full_7bit", ["-f"], "full", ref, rules=hi, inp=hiin, run=False, link=False)
    add("default_fast_7bit", ["-F"], "fast", ref, rules=hi, inp=hiin, run=False, link=False)
    add("default_fullecs_8bit", ["-Cfer"], "full ecs", acc, rules=hi, inp=hiin)
    add("default_fastecs_8bit", ["-CFer"], "fast ecs", acc, rules=hi, inp=hiin)
    add("full", ["-f"], "full", lambda b: (okrun(b) and re.search(r"yy_nxt\[\]\[\d+\]", b.ctext) is not None, ""))
    add("fast", ["-F"], "fast", lambda b: (okrun(b) and "yy_transition[" in b.ctext, ""))
    add("ecs", ["-Ce"], "ecs nometa-ecs", lambda b: (okrun(b) and re.search(r"yy_ec\[\d+\]", b.ctext) is not None and not re.search(r"yy_meta\[\d+\]", b.ctext), ""))
    add("metaecs", ["-Cem"], "ecs meta-ecs", lambda b: (okrun(b) and re.search(r"yy_meta\[\d+\]", b.ctext) is not None, ""))
    add("noecs", ["-C"], "noecs nometa-ecs", lambda b: (okrun(b) and not re.search(r"yy_ec\[\d+\]", b.ctext), ""))
    return P


def _header_ok(b, fd):
    if b.frc != 0 or not os.path.exists(os.path.join(b.wd, "p.h")): return False, b.ferr[:200]
    open(os.path.join(b.wd, "client.c"), "w").write('#include "p.h"\nint use(void) { yy_scan_string("x"); return yylex(); }\n')
    q = subprocess.run(["gcc", "-w", "-c", "client.c"], cwd=b.wd, stdout=subprocess.PIPE, stderr=subprocess.STDOUT, text=True)
    return q.returncode == 0, q.stdout[-300:]


NEG = [  # (opt, %option text of the negation, predicate)
    ("stack", "nostack", lambda b: (b.frc == 0 and (b.crc != 0 or getattr(b, "lrc", 0) != 0), "yy_push_state must not be available"), dict(act="yy_push_state(0);", run=False)),
    ("yylineno", "noyylineno", lambda b: (b.frc == 0 and b.crc == 0 and b.rrc == 0 and "line=1" in b.rout, b.rout),
     dict(sect3='int main(void) { while (yylex()) ; printf("line=%d\\n", yylineno); return 0; }')),
    ("yywrap", "noyywrap", lambda b: (b.frc == 0 and b.crc == 0 and getattr(b, "lrc", 1) == 0, getattr(b, "lout", "")[-200:]), dict(base="%option")),
]

PAIRS = [  # (name, cli args, %option text, expected: 'refuse' | 'warn', message regex)
    ("conflict_cxx_reentrant", ["-+", "-R"], "", "refuse", r"mutually exclusive|incompatible|Can't use"),
    ("conflict_full_interactive", ["-Cf", "-I"], "", "refuse", r"incompatible"),
    ("conflict_full_reject", ["-Cf"], "reject", "refuse", r"REJECT cannot be used"),
    ("override_array_cxx", ["-+"], "array", "warn", r"array"),
]

"""Rich pattern ASTs (the JSON form read by spec/FlexRegex.tla), a seeded
generator for them, and the renderer to flex's concrete syntax.

The renderer inserts only the parentheses the *documented* precedence needs
(manual node Patterns: closure > concatenation > alternation; {n,m} binds to
the preceding singleton in flex mode and to the whole preceding series in
POSIX mode), so a generator whose parser disagrees with the manual is caught
by the comparison against Core() in TLA+.
"""
import random

POSIX = ["alnum", "alpha", "blank", "cntrl", "digit", "graph", "lower", "print",
         "punct", "space", "upper", "xdigit"]
CESC = {10: "\\n", 9: "\\t", 13: "\\r", 12: "\\f", 8: "\\b", 7: "\\a", 11: "\\v"}


def is_alnum(b):
    return (48 <= b <= 57) or (65 <= b <= 90) or (97 <= b <= 122)


def is_print(b):
    return 33 <= b <= 126


# ---------------------------------------------------------------- constructors
def chr_(b, style="auto"): return ["chr", b, style]
def str_(bs): return ["str", list(bs)]
def dot(): return ["dot"]
def ccl(items, neg=False): return ["ccl", 1 if neg else 0, items]
def cb(b): return ["b", b]
def cr(lo, hi): return ["r", lo, hi]
def cp(name): return ["p", name]
def cnp(name): return ["np", name]
def diff(a, b): return ["diff", a, b]
def union(a, b): return ["union", a, b]
def cat(*xs):
    r = xs[-1]
    for x in reversed(xs[:-1]):
        r = ["cat", x, r]
    return r
def alt(*xs):
    r = xs[-1]
    for x in reversed(xs[:-1]):
        r = ["alt", x, r]
    return r
def star(a): return ["star", a]
def plus(a): return ["plus", a]
def opt(a): return ["opt", a]
def rep(a, n, m=None): return ["rep", a, n, n if m is None else m]   # m=-1: unbounded
def grp(a, i=-1, s=-1, x=0): return ["grp", i, s, a, x]
def ref(k): return ["ref", k]
def lit(s):
    bs = s.encode("latin-1") if isinstance(s, str) else bytes(s)
    return cat(*[chr_(b) for b in bs])


# ---------------------------------------------------------------- analysis
def minlen(a, defs=()):
    t = a[0]
    if t == "chr" or t == "dot" or t in ("ccl", "diff", "union"): return 1
    if t == "str": return len(a[1])
    if t == "cat": return minlen(a[1], defs) + minlen(a[2], defs)
    if t == "alt": return min(minlen(a[1], defs), minlen(a[2], defs))
    if t in ("star", "opt"): return 0
    if t == "plus": return minlen(a[1], defs)
    if t == "rep": return a[2] * minlen(a[1], defs)
    if t == "grp": return minlen(a[3], defs)
    if t == "ref": return minlen(defs[a[1] - 1], defs)
    raise ValueError(t)


def size(a):
    return 1 + sum(size(x) for x in a[1:] if isinstance(x, list) and x and isinstance(x[0], str))


# ---------------------------------------------------------------- sampling
# Strings that (roughly) match a pattern.  This only STEERS input generation towards deep matches; what an
# input ought to produce is decided by the TLA+ specification, never by this code, so an inaccuracy here
# costs coverage, not soundness.
_CLS = {"alnum": is_alnum, "alpha": lambda b: (65 <= b <= 90) or (97 <= b <= 122), "blank": lambda b: b in (32, 9),
        "cntrl": lambda b: b < 32 or b == 127, "digit": lambda b: 48 <= b <= 57, "graph": lambda b: 33 <= b <= 126,
        "lower": lambda b: 97 <= b <= 122, "print": lambda b: 32 <= b <= 126, "punct": lambda b: 33 <= b <= 126 and not is_alnum(b),
        "space": lambda b: b in (32, 9, 10, 11, 12, 13), "upper": lambda b: 65 <= b <= 90,
        "xdigit": lambda b: (48 <= b <= 57) or (65 <= b <= 70) or (97 <= b <= 102)}


def _fold(bs):
    out = set(bs)
    for b in bs:
        if 65 <= b <= 90: out.add(b + 32)
        if 97 <= b <= 122: out.add(b - 32)
    return out


def byteset(a, ci=False):
    t = a[0]
    if t == "ccl":
        st = set()
        for it in a[2]:
            if it[0] == "b": st.add(it[1])
            elif it[0] == "r": st.update(range(it[1], it[2] + 1))
            elif it[0] == "p": st.update(b for b in range(256) if _CLS[it[1]](b))
            elif it[0] == "np": st.update(b for b in range(256) if not _CLS[it[1]](b))
        if ci: st = _fold(st)
        return set(range(256)) - st if a[1] else st
    if t == "diff": return byteset(a[1], ci) - byteset(a[2], ci)
    if t == "union": return byteset(a[1], ci) | byteset(a[2], ci)
    return set()


def sample(a, rng, defs=(), alphabet=(97,), ci=False, dotall=False, depth=0):
    """a list of bytes matched (approximately) by pattern a"""
    t = a[0]
    if t == "chr":
        b = a[1]
        if ci and rng.random() < 0.5: b = min(_fold([b]) - {b} or {b})
        return [b]
    if t == "str": return list(a[1])
    if t == "dot":
        c = [b for b in alphabet if dotall or b != 10] or [97]
        return [rng.choice(c)]
    if t in ("ccl", "diff", "union"):
        st = byteset(a, ci)
        pref = [b for b in alphabet if b in st]
        if pref and rng.random() < 0.85: return [rng.choice(pref)]
        return [rng.choice(sorted(st))] if st else []
    if t == "cat": return sample(a[1], rng, defs, alphabet, ci, dotall, depth) + sample(a[2], rng, defs, alphabet, ci, dotall, depth)
    if t == "alt": return sample(a[rng.choice([1, 2])], rng, defs, alphabet, ci, dotall, depth)
    if t in ("star", "plus", "opt"):
        lo = 1 if t == "plus" else 0
        hi = 1 if t == "opt" else (4 if depth < 2 else 2)
        out = []
        for _ in range(rng.randint(lo, hi)): out += sample(a[1], rng, defs, alphabet, ci, dotall, depth + 1)
        return out
    if t == "rep":
        hi = a[3] if a[3] >= 0 else a[2] + 2
        out = []
        for _ in range(rng.randint(a[2], max(a[2], min(hi, a[2] + 3)))): out += sample(a[1], rng, defs, alphabet, ci, dotall, depth + 1)
        return out
    if t == "grp":
        return sample(a[3], rng, defs, alphabet, (a[1] == 1) if a[1] >= 0 else ci, (a[2] == 1) if a[2] >= 0 else dotall, depth)
    if t == "ref": return sample(defs[a[1] - 1], rng, defs, alphabet, ci, dotall, depth)
    return []


def sample_input(src, rng, alphabet, maxlen=24):
    """concatenation of strings matching rules of the rule set (head + trailing context), with a little noise"""
    out = []
    defs = src.get("defs", [])
    for _ in range(rng.randint(1, 3)):
        r = rng.choice(src["rules"])
        out += sample(r["head"], rng, defs, alphabet, src.get("ci", False))
        if r["trail"] != ["none"]:
            out += sample(r["trail"], rng, defs, alphabet, src.get("ci", False))
        if rng.random() < 0.3: out.append(rng.choice(alphabet))
    if src.get("sevenbit"): out = [b & 127 for b in out]
    return bytes(out[:maxlen])


# ---------------------------------------------------------------- rendering
def _byte_plain_ok(b):
    return is_alnum(b) or b == 95  # '_'


def render_byte(b, style, ctx, rng=None):
    """ctx: 'top' (outside class/quotes), 'ccl', 'str'."""
    if style == "auto":
        if _byte_plain_ok(b): style = "plain"
        elif b in CESC: style = "cesc"
        elif is_print(b) or b == 32: style = "esc"
        else: style = "hex"
    if style == "plain" and not _byte_plain_ok(b):
        style = "esc" if (is_print(b) or b == 32) else "hex"
    if style == "esc" and (is_alnum(b) or not (is_print(b) or b == 32)):
        style = "hex"
    if style == "cesc" and b not in CESC:
        style = "oct"
    if style == "plain": return chr(b)
    if style == "esc": return "\\" + chr(b)
    if style == "cesc": return CESC[b]
    if style == "oct": return "\\%03o" % b
    if style == "hex": return "\\x%02x" % b
    raise ValueError(style)


def render_ccl(c, rng=None):
    t = c[0]
    if t == "ccl":
        out = "[" + ("^" if c[1] else "")
        for it in c[2]:
            if it[0] == "b": out += render_byte(it[1], "auto", "ccl")
            elif it[0] == "r": out += render_byte(it[1], "auto", "ccl") + "-" + render_byte(it[2], "auto", "ccl")
            elif it[0] == "p": out += "[:%s:]" % it[1]
            elif it[0] == "np": out += "[:^%s:]" % it[1]
        return out + "]"
    if t == "diff": return render_ccl(c[1]) + "{-}" + render_ccl(c[2])
    if t == "union": return render_ccl(c[1]) + "{+}" + render_ccl(c[2])
    raise ValueError(t)


# precedence levels: 0 = re (alternation), 1 = series, 2 = singleton/atom
class Renderer:
    def __init__(self, posix=False, defnames=(), xspace=None):
        self.posix = posix
        self.defnames = defnames
        self.xs = xspace  # random.Random for whitespace inside (?x:) groups

    def r(self, a, level, inx=False, first=True):
        """render a at least at precedence `level`; `first`: a starts its series
        (matters for POSIX-mode repetition)."""
        t = a[0]
        sp = (lambda: " " * self.xs.randint(0, 2)) if (inx and self.xs) else (lambda: "")
        if t == "chr": return render_byte(a[1], a[2] if len(a) > 2 else "auto", "top")
        if t == "str":
            return '"' + "".join(render_byte(b, "auto" if not _byte_plain_ok(b) and b != 32 else "plain", "str")
                                 if b != 32 else " " for b in a[1]) + '"'
        if t == "dot": return "."
        if t in ("ccl", "diff", "union"): return render_ccl(a)
        if t == "ref": return "{%s}" % self.defnames[a[1] - 1]
        if t == "grp":
            on = ("i" if a[1] == 1 else "") + ("s" if a[2] == 1 else "") + ("x" if len(a) > 4 and a[4] == 1 else "")
            off = ("i" if a[1] == 0 else "") + ("s" if a[2] == 0 else "")
            x = (len(a) > 4 and a[4] == 1) or inx
            return "(?" + on + ("-" + off if off else "") + ":" + self.r(a[3], 0, x) + ")"
        if t == "alt":
            s = self.r(a[1], 1, inx) + sp() + "|" + sp() + self.r(a[2], 0, inx)
            return s if level <= 0 else "(" + s + ")"
        if t == "cat":
            elems = []
            def flat(n):
                if n[0] == "cat": flat(n[1]); flat(n[2])
                else: elems.append(n)
            flat(a)
            parts = []
            for i, e in enumerate(elems):
                parts.append(self.r(e, 2 if not (self.posix and e[0] == "rep") else 1, inx, first=(i == 0)))
            s = sp().join(parts)
            return s if level <= 1 else "(" + s + ")"
        if t in ("star", "plus", "opt"):
            op = {"star": "*", "plus": "+", "opt": "?"}[t]
            return self.r(a[1], 2, inx) + op
        if t == "rep":
            n, m = a[2], a[3]
            q = "{%d}" % n if m == n else ("{%d,}" % n if m == -1 else "{%d,%d}" % (n, m))
            if self.posix:
                # binds to the whole series before it
                s = self.r(a[1], 1, inx) + q
                if level >= 2 or not first:
                    return "(" + s + ")"
                return s
            return self.r(a[1], 2, inx) + q
        raise ValueError(t)

    def render(self, a):
        return self.r(a, 0)


def render(a, posix=False, defnames=(), xseed=None):
    return Renderer(posix, defnames, random.Random(xseed) if xseed is not None else None).render(a)


# ---------------------------------------------------------------- generation
class Gen:
    """Seeded random ASTs over a small byte alphabet.  Feature switches select
    which constructs of the documented language may appear."""

    def __init__(self, rng, alphabet, feats=None, ci=False, sevenbit=False, ndefs=0):
        self.rng = rng
        self.alpha = list(alphabet)
        self.f = feats or set(["chr", "str", "dot", "ccl", "alt", "star", "plus", "opt", "rep",
                               "posix", "setop", "grp", "ref", "negccl"])
        self.ci = ci
        self.hi = 127 if sevenbit else 255
        self.ndefs = ndefs

    def byte(self):
        return self.rng.choice(self.alpha)

    def ccl_items(self, ci):
        items = []
        for _ in range(self.rng.randint(1, 3)):
            k = self.rng.random()
            if k < 0.5:
                items.append(cb(self.byte()))
            elif k < 0.8:
                a, b = sorted([self.byte(), self.byte()])
                if ci and not self._range_ok(a, b):
                    items.append(cb(a))
                else:
                    items.append(cr(a, b))
            elif "posix" in self.f:
                if self.rng.random() < 0.7:
                    items.append(cp(self.rng.choice(POSIX)))
                else:
                    nm = self.rng.choice(POSIX)
                    if ci and nm in ("lower", "upper"):
                        nm = "digit"
                    items.append(cnp(nm))
            else:
                items.append(cb(self.byte()))
        return items

    @staticmethod
    def _range_ok(a, b):
        # ranges that flex does not call ambiguous under case-insensitivity
        def cls(x): return "u" if 65 <= x <= 90 else "l" if 97 <= x <= 122 else "o"
        if cls(a) != cls(b): return False
        if cls(a) == "o":
            # must not span letters of one case without the other
            lo_l = any(97 <= c <= 122 for c in range(a, b + 1))
            lo_u = any(65 <= c <= 90 for c in range(a, b + 1))
            return not (lo_l or lo_u)
        return True

    def cclass(self, ci):
        neg = "negccl" in self.f and self.rng.random() < 0.3
        c = ccl(self.ccl_items(ci), neg)
        if "setop" in self.f and self.rng.random() < 0.25:
            c2 = ccl(self.ccl_items(ci), False)
            c = diff(c, c2) if self.rng.random() < 0.6 else union(c, c2)
        return c

    def atom(self, ci):
        ch = []
        if "chr" in self.f: ch += ["chr"] * 5
        if "str" in self.f: ch += ["str"]
        if "dot" in self.f: ch += ["dot"]
        if "ccl" in self.f: ch += ["ccl"] * 2
        if "ref" in self.f and self.ndefs: ch += ["ref"]
        k = self.rng.choice(ch or ["chr"])
        if k == "chr":
            return chr_(self.byte(), self.rng.choice(["auto", "auto", "auto", "oct", "hex", "esc", "cesc"]))
        if k == "str":
            return str_([self.byte() for _ in range(self.rng.randint(1, 3))])
        if k == "dot": return dot()
        if k == "ccl": return self.cclass(ci)
        return ref(self.rng.randint(1, self.ndefs))

    def gen(self, depth, ci=None):
        ci = self.ci if ci is None else ci
        if depth <= 0 or self.rng.random() < 0.25:
            return self.atom(ci)
        ops = ["cat"] * 4
        for o in ("alt", "star", "plus", "opt", "rep", "grp"):
            if o in self.f: ops.append(o)
        o = self.rng.choice(ops)
        if o == "cat": return ["cat", self.gen(depth - 1, ci), self.gen(depth - 1, ci)]
        if o == "alt": return ["alt", self.gen(depth - 1, ci), self.gen(depth - 1, ci)]
        if o in ("star", "plus", "opt"): return [o, self.gen(depth - 1, ci)]
        if o == "rep":
            n = self.rng.randint(0, 2)
            k = self.rng.random()
            if k < 0.4: n = max(n, 1); m = n
            elif k < 0.7: n = max(n, 1); m = -1
            else: m = n + self.rng.randint(1, 2)
            return ["rep", self.gen(depth - 1, ci), n, m]
        if o == "grp":
            i = self.rng.choice([-1, -1, 0, 1]); s = self.rng.choice([-1, -1, 0, 1]); x = self.rng.choice([0, 0, 1])
            nci = ci if i == -1 else (i == 1)
            return ["grp", i, s, self.gen(depth - 1, nci), x]
        raise AssertionError

    def nonnull(self, depth, defs=(), tries=20):
        for _ in range(tries):
            a = self.gen(depth)
            if minlen(a, defs) >= 1:
                return a
        return chr_(self.byte())

"""Common machinery of all checks: scratch area, evidence, violations,
known findings, exit protocol."""
import json, os, re, shutil, sys, tempfile, time, hashlib, traceback

VERIF = os.path.abspath(os.path.join(os.path.dirname(os.path.abspath(__file__)), "..", ".."))
SCRATCH = os.environ.get("VERIF_SCRATCH", "/tmp/verif-scratch")


def load_findings():
    p = os.path.join(VERIF, "known_findings.json")
    try:
        return json.load(open(p))["findings"]
    except Exception:
        return []


class Violation:
    def __init__(self, prop, kind, what, detail=None, files=None):
        self.prop = prop; self.kind = kind; self.what = what; self.detail = detail or {}
        self.files = files or []
        self.known = None


class Run:
    def __init__(self, prop, tier="quick", seed=0, level="model_checking"):
        self.prop = prop; self.tier = tier; self.seed = seed; self.level = level
        self.t0 = time.time()
        os.makedirs(SCRATCH, exist_ok=True)
        self.work = tempfile.mkdtemp(prefix="run-%s-" % prop, dir=SCRATCH)
        self.violations = []
        self.cov = dict(states=0, transitions=0, traces_validated_against_impl=0, evaluations=0,
                        distinct_nontrivial=0, samples=[], units=[])
        self.assumptions = []
        self.errors = []
        self._distinct = set()
        self.findings = load_findings()
        self.known_lines = []

    # ---------------------------------------------------------------- bookkeeping
    def note_case(self, key, nontrivial=True):
        self.cov["evaluations"] += 1
        if nontrivial:
            h = hashlib.sha1(json.dumps(key, sort_keys=True, default=str).encode()).hexdigest()
            self._distinct.add(h)

    def sample(self, obj, limit=6):
        if len(self.cov["samples"]) < limit:
            self.cov["samples"].append(obj)

    def unit(self, name, **kw):
        d = dict(name=name); d.update(kw); self.cov["units"].append(d)

    def add_tlc(self, r):
        self.cov["states"] += r.distinct if hasattr(r, "distinct") else r.get("distinct", 0)
        self.cov["transitions"] += r.generated if hasattr(r, "generated") else r.get("generated", 0)

    def error(self, msg):
        self.errors.append(msg)
        print("ERROR %s" % msg, file=sys.stderr)

    # ---------------------------------------------------------------- violations
    def violation(self, kind, what, detail=None, files=None):
        v = Violation(self.prop, kind, what, detail, files)
        for f in self.findings:
            if f.get("status") != "open" or self.prop not in (f.get("properties") or [f.get("property")]):
                continue
            m = f.get("match", {})
            if m.get("kind") and not kind.startswith(m["kind"]): continue
            if m.get("regex") and not re.search(m["regex"], what + " " + json.dumps(detail or {}, default=str)):
                continue
            v.known = f
            break
        self.violations.append(v)
        return v

    def _replay_dir(self, v, n):
        d = os.path.join(VERIF, "out", "replay", "%s-%s-%d" % (self.prop, time.strftime("%Y%m%d%H%M%S"), n))
        os.makedirs(d, exist_ok=True)
        with open(os.path.join(d, "violation.json"), "w") as f:
            json.dump(dict(property=self.prop, kind=v.kind, what=v.what, detail=v.detail, tier=self.tier, seed=self.seed),
                      f, indent=1, default=str)
        for src in v.files:
            try:
                if os.path.isfile(src): shutil.copy(src, d)
            except Exception:
                pass
        return d

    def probe(self, name, fn):
        """run fn(sub) on a scratch collector; anything it reports is re-labelled as
        the single violation kind 'probe:<name>' (how open known findings are matched)"""
        sub = Run(self.prop, self.tier, self.seed, self.level)
        try:
            fn(sub)
        finally:
            self.cov["states"] += sub.cov["states"]; self.cov["transitions"] += sub.cov["transitions"]
            self.cov["traces_validated_against_impl"] += sub.cov["traces_validated_against_impl"]
            self.cov["units"] += [dict(u, probe=name) for u in sub.cov["units"]]
            self.errors += sub.errors
            if sub.violations:
                v0 = sub.violations[0]
                self.violation("probe:" + name, "probe %s: %s" % (name, v0.what), v0.detail, v0.files)
                # keep the files alive until finish() copies them
                self._probe_dirs = getattr(self, "_probe_dirs", []) + [sub.work]
            else:
                shutil.rmtree(sub.work, ignore_errors=True)

    # ---------------------------------------------------------------- finish
    def finish(self):
        wall = time.time() - self.t0
        self.cov["distinct_nontrivial"] = len(self._distinct)
        real = [v for v in self.violations if not v.known]
        known = [v for v in self.violations if v.known]
        seen = set()
        for v in known:
            k = v.known.get("id") or v.known.get("what")
            if k in seen: continue
            seen.add(k)
            print("KNOWN-FINDING: property=%s %s" % (self.prop, v.known.get("what", v.what)))
        ev = dict(property_id=self.prop, tier=self.tier, seed=self.seed, level=self.level,
                  coverage=self.cov, assumptions=self.assumptions, wall_s=round(wall, 1),
                  violations=len(real), known_findings=len(seen))
        if not self.cov["samples"]:
            self.cov["samples"].append("no sample recorded")
        evd = os.environ.get("VERIF_EVIDENCE_DIR") or os.path.join(VERIF, "evidence")   # (mutant runs keep their evidence apart)
        os.makedirs(evd, exist_ok=True)
        tmp = os.path.join(evd, "%s.json.tmp" % self.prop)
        with open(tmp, "w") as f:
            json.dump(ev, f, indent=1, default=str)
        os.replace(tmp, os.path.join(evd, "%s.json" % self.prop))
        dirs = [self._replay_dir(v, n) for n, v in enumerate(real[:5])]
        shutil.rmtree(self.work, ignore_errors=True)
        for pd in getattr(self, "_probe_dirs", []): shutil.rmtree(pd, ignore_errors=True)
        if self.errors and not real:
            print("ERROR property=%s infrastructure/model failure: %s" % (self.prop, self.errors[0][:300]))
            return 2
        if real:
            for n, v in enumerate(real[:5]):
                d = dirs[n]
                print("VIOLATION property=%s replay=%s" % (self.prop, d))
                print("  %s: %s" % (v.kind, v.what[:400]))
            return 1
        print("OK property=%s tier=%s states=%d transitions=%d traces=%d cases=%d distinct=%d wall=%.0fs" % (
            self.prop, self.tier, self.cov["states"], self.cov["transitions"],
            self.cov["traces_validated_against_impl"], self.cov["evaluations"], self.cov["distinct_nontrivial"], wall))
        return 0

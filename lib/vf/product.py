"""Product (bisimulation) check driver: rule-set sources x configurations ->
really generated scanners -> dumped tables -> TLC (spec/MC_Product.tla)."""
import concurrent.futures as cf
import json, os, re, shutil, time
from . import scanner, tlc

NCPU = int(os.environ.get("VERIF_JOBS", "16"))


def detect_var(src, T):
    var = set()
    for e in T.get("acclist", []):
        if e & 0x2000 or e & 0x4000:
            var.add(e & 0x1fff)
    for i, r in enumerate(src["rules"]):
        r["var"] = (i + 1) in var


def rule_lines(ltext):
    """line number (1-based) of each VACT(k) rule in the emitted .l"""
    m = {}
    for n, line in enumerate(ltext.splitlines(), 1):
        x = re.search(r"\{ VACT\((\d+)\) \}(\s*\})?\s*$", line)      # (actionwords wrap the action in one more block)
        if x: m[n] = int(x.group(1))
    return m


class Case:
    def __init__(self, cid, src, cfg):
        self.id = cid; self.src = json.loads(json.dumps(src)); self.cfg = dict(cfg)
        if self.cfg.get("bits") == 7: self.src["sevenbit"] = True
        if self.src.get("sevenbit"): self.cfg["bits"] = 7
        self.status = None      # ok | refused | builderr | violation | skipped
        self.detail = ""; self.gen = None; self.T = None; self.stderr = ""
        self.violation = None   # dict(invariant, path)
        self.states = []        # (st, sel, path) exported by TLC
        self.warn_unmatched = set(); self.warn_default = False; self.dangerous = False


def prepare(flexdir, case, workdir, san=False):
    try:
        g = scanner.generate(flexdir, case.src, case.cfg, workdir, case.id, san=san)
    except scanner.GenError as e:
        case.stderr = e.stderr
        if e.rc == -1:
            case.status = "builderr"; case.detail = e.stderr[-1500:]
        else:
            case.status = "refused"; case.detail = e.stderr.strip()[:500]
        return case
    case.gen = g; case.stderr = g["stderr"]
    lm = rule_lines(open(g["l"]).read())
    for line in g["stderr"].splitlines():
        m = re.search(r":(\d+): warning, rule cannot be matched", line)
        if m and int(m.group(1)) in lm:
            case.warn_unmatched.add(lm[int(m.group(1))])
        if "default rule can be matched" in line:
            case.warn_default = True
        if "dangerous trailing context" in line:
            case.dangerous = True
    if case.cfg.get("instances"):
        case.T = {"reject": True}; case.status = "ok"     # the instance harness has no table dump (tables are checked elsewhere)
        return case
    if case.cfg.get("tablesfile"):
        case.T = None; case.status = "ok"     # tables live in the file: no in-code arrays to dump
        return case
    try:
        T = scanner.dump_tables(g["exe"])
    except Exception as e:  # noqa
        case.status = "builderr"; case.detail = "dump: %s" % e
        return case
    T["csize"] = 128 if case.cfg.get("bits", 8) == 7 else 256
    case.T = T
    detect_var(case.src, T)
    return case


def run_product(flexdir, cases, workdir, san=False, batch=40, workers=NCPU, timeout=300, log=None):
    """cases: list of Case.  Fills in status/violation/states.  Returns stats."""
    os.makedirs(workdir, exist_ok=True)
    t0 = time.time()
    with cf.ThreadPoolExecutor(NCPU) as ex:
        list(ex.map(lambda c: prepare(flexdir, c, workdir, san), cases))
    tgen = time.time() - t0
    todo = [c for c in cases if c.T is not None and c.status is None]
    stats = dict(generated=0, distinct=0, tlc_runs=0, tlc_wall=0.0, gen_wall=tgen, model_errors=[])
    bi = 0
    while todo:
        chunk, todo = todo[:batch], todo[batch:]
        while chunk:
            bi += 1
            path = os.path.join(workdir, "cases-%d.ndjson" % bi)
            with open(path, "w") as f:
                for c in chunk:
                    f.write(json.dumps({"id": c.id, "src": c.src, "T": c.T}) + "\n")
            r = tlc.run("MC_Product", env={"CASES": path}, workers=workers, timeout=timeout)
            if r.timed_out:
                r = tlc.run("MC_Product", env={"CASES": path}, workers=4, timeout=timeout)
            stats["tlc_runs"] += 1; stats["tlc_wall"] += r.wall
            stats["generated"] += r.generated; stats["distinct"] += r.distinct
            seen = {}
            for m in re.finditer(r'<<"ST", (\d+), (-?\d+), (\d+), <<([-\d, ]*)>>>>', r.out):
                ci = int(m.group(1)) - 1
                if ci < len(chunk):
                    p = [int(x) for x in m.group(4).replace(" ", "").split(",") if x]
                    seen.setdefault(ci, []).append((int(m.group(2)), int(m.group(3)), p))
            if r.violated:
                ci = tlc.ints(r.last_state.get("cs", "0"))[0] - 1
                c = chunk[ci]
                c.status = "violation"
                c.violation = dict(invariant=r.violated, path=tlc.ints(r.last_state.get("path", "")),
                                   st=r.last_state.get("st"), trace=r.trace_text[:4000])
                if log: log("violation %s %s path=%s" % (c.id, r.violated, c.violation["path"]))
                chunk = chunk[:ci] + chunk[ci + 1:]
                continue   # re-run the rest of the batch
            if not r.ok:
                stats["model_errors"].append((r.error or r.out[-2000:], [c.id for c in chunk]))
                for c in chunk: c.status = "modelerr"
                break
            for ci, c in enumerate(chunk):
                c.status = "ok"; c.states = seen.get(ci, [])
            break
    return stats


# ---------------------------------------------------------------- configuration lattice
TBL_CMP = ["-C", "-Ce", "-Cm", "-Cem"]
TBL_FULL = ["-Cf", "-CF", "-Cfe", "-CFe"]


def table_configs(with_align=True):
    out = []
    for t in TBL_CMP + TBL_FULL:
        out.append(t)
        if with_align: out.append(t[:2] + "a" + t[2:])
    return out

"""The per-property checks.  Each takes a Run and composes units."""
import os, random, json, shutil
from . import build, engine, rulesets, units, product

CHECKS = {}


def check(pid, level="model_checking"):
    def deco(f):
        CHECKS[pid] = (f, level); return f
    return deco


def fam(run, profiles=None, core=3, rnd=40, hand=True):
    out = []
    if hand: out += rulesets.handwritten()
    out += [s for s in rulesets.core_family(core) if profiles is None or s["profile"] in profiles]
    r = rulesets.random_family(run.seed, rnd * (2 if run.tier == "thorough" else 1))
    out += [s for s in r if profiles is None or s["profile"] in profiles]
    return out


@check("C01")
def c01(run):
    fd = build.build_flex()
    rng = random.Random(run.seed)
    mc = units.model_async(run, invariants=("LongestFirst", "EofOnlyAtEnd"))
    srcs = fam(run, core=3 if run.tier == "quick" else 6, rnd=40)
    srcs += rulesets.proto_family(12 if run.tier == "quick" else 30) + [rulesets.proto_ruleset(random.Random(run.seed * 7919 + i), "rnd-proto-%d" % i) for i in range(6 if run.tier == "quick" else 20)]
    cases = units.product_unit(run, fd, srcs, [{"tbl": ""}], tag="product", san=True)
    # operator contexts, enumerated (tables only: each rule set is decided for all inputs by the product check)
    units.product_unit(run, fd, rulesets.context_family(run.tier != "quick"), [{"tbl": ""}], tag="contexts")
    units.trace_unit(run, cases, rng, per_case=8 if run.tier == "quick" else 16, scripts=False, tag="tokens", full_cover=600 if run.tier == "quick" else 1500)
    mc.result()
    run.assumptions += ["rule sets are sampled (each one is decided for all inputs by the product check)",
                        "Render() (lib/vf/pattern.py) writes the manual's concrete syntax"]


ALL_TBL = product.table_configs()


def _rebuild_with(c, fd, run, extra):
    """recompile a case's scanner with extra -D flags (probes of known findings)"""
    from . import scanner
    g = scanner.generate(fd, c.src, c.cfg, os.path.dirname(c.gen["exe"]), c.id + "p", san=True, cc_extra=extra)
    return g["exe"]


def tbl_cfgs(tables, inter=(None,), reject=(False,), extra=None):
    out = []
    for t in tables:
        for i in inter:
            for r in reject:
                c = {"tbl": t, "interactive": i, "reject": r}
                if extra: c.update(extra)
                out.append(c)
    return out


@check("C02")
def c02(run):
    fd = build.build_flex()
    rng = random.Random(run.seed)
    q = run.tier == "quick"
    hand = rulesets.handwritten()
    core = rulesets.core_family(1)
    # (a) the whole table/mode lattice for a fixed set of rule sets
    fixed = hand[:4] + [s for s in core if s["profile"] in ("nul", "ccl", "sc", "mix", "ci", "ref")] + rulesets.proto_family(2)
    lattice = tbl_cfgs(ALL_TBL, inter=(None, False, True)) + tbl_cfgs(["-Cem", "-Cf"], reject=(True,)) \
        + tbl_cfgs(["-Cem", "-Cf", "-CF", "-Cfe"], extra={"bits": 7})
    units.product_unit(run, fd, [s for s in fixed if not s.get("sevenbit")], lattice, tag="lattice")
    # (b) every other rule set under a seeded sample of configurations
    rest = hand[4:] + [s for s in core if s not in fixed] + rulesets.random_family(run.seed, 20 if q else 60)
    sample = [rng.choice(lattice[:48]) for _ in range(3 if q else 5)] + [{"tbl": "-Cfe"}, {"tbl": "-CF"}]
    units.product_unit(run, fd, rest, sample, tag="sample")
    # (c) API flavours / yytext kinds: the same abstract machine must explain all of them
    flav = []
    for fl in ("nr", "r"):
        for arr in (False, True):
            flav.append({"flavour": fl, "array": arr, "yymore": True, "reject": False})
            flav.append({"flavour": fl, "array": arr, "yymore": True, "reject": True})
    for t in ("-Cf", "-CF", "-Cfe", "-Ca", "-C"):
        flav.append({"tbl": t, "yymore": True})
    # yytext kind x table representation (full tables find out that they must back up only after the text was copied)
    flav += [{"tbl": "-Cf", "yymore": True, "array": True}, {"tbl": "-CF", "yymore": True, "array": True, "flavour": "r"},
             {"flavour": "c99", "tbl": "-Cf", "yymore": True, "array": True}]
    # the c99 back end (its own skeleton): same specification, same traces
    flav += [{"flavour": "c99", "yymore": True, "reject": True}, {"flavour": "c99", "yymore": True, "array": True},
             {"flavour": "c99", "array": True, "reject": True}, {"flavour": "c99", "tbl": "-CF", "userread": False},
             {"flavour": "c99", "tbl": "-Cf", "yymore": True, "userwrap": True}, {"flavour": "c99", "tbl": "-Cm", "interactive": False}]
    # the C++ lexer class (cpp-flex.skl under M4_MODE_CXX_ONLY, FlexLexer.h): the scanner is an object, input through LexerInput()
    flav += [{"flavour": "cxx", "yymore": True, "reject": True}, {"flavour": "cxx", "tbl": "-Cf", "userwrap": True},
             {"flavour": "cxx", "userread": False}, {"flavour": "cxx", "interactive": False, "stack": True, "tbl": "-Ca"}]
    srcs = hand[:3] + [s for s in core if s["profile"] in ("mix", "nul", "sc", "trail")]
    cases = units.product_unit(run, fd, srcs, flav, tag="flavours", san=True)
    units.trace_unit(run, cases, rng, per_case=16 if q else 32, tag="flavtraces", full_cover=40 if q else 100)
    _bigtables_unit(run, fd)
    run.assumptions += ["go back end is outside the property (not a documented back end)",
                        "C++ lexer class: no in-memory buffers, no %array (not offered by that interface)"]


def _bigtables_unit(run, fd):
    """rule sets whose tables outgrow 16-bit elements (thousands of keywords next to an identifier rule; many rules accepting in
    the same states under REJECT): too large for the product check, so the table representations are compared with each other
    (differential: every configuration must print the same tokens as the others, and none may need an initialiser that does not
    fit its table's element type)"""
    import subprocess
    wd = os.path.join(run.work, "bigtables"); os.makedirs(wd, exist_ok=True)
    rr = random.Random(77)
    kw = set()
    while len(kw) < (900 if run.tier == "quick" else 2600): kw.add("".join(rr.choice("abcdefghijklmnopqrstuvwxyz") for _ in range(rr.randint(5, 8))))
    kw = sorted(kw)
    inp = "\n".join(kw[::7] + ["zzzz", kw[3] + "x", kw[-1][:-1]]) + "\n"
    def spec(nid, rej):
        return ("%option noyywrap" + (" reject" if rej else "") + "\n%%\n" + "".join('%s  { printf("K%d\\n"); }\n' % (k, i) for i, k in enumerate(kw))
                + "".join('[a-z]+ { printf("ID%d\\n"); %s }\n' % (j, "REJECT;" if rej and j + 1 < nid else "") for j in range(nid))
                + ".|\\n ;\n%%\nint main(void) { while (yylex()) ; return 0; }\n")
    groups = [("keywords", spec(1, False), [[], ["-Cem"], ["-C"], ["-Ce"], ["-Ca"], ["-CF"], ["-CFe"], ["-Cfe"]]),
              ("acclists", spec(40, True), [[], ["-Cem"], ["-C"], ["-Ca"]])]
    n = 0
    for gname, text, cfgs in groups:
        lp = os.path.join(wd, gname + ".l"); open(lp, "w").write(text)
        outs = {}
        for args in cfgs:
            tag = gname + "".join(args); cp = os.path.join(wd, tag + ".c"); exe = os.path.join(wd, tag)
            p = subprocess.run([os.path.join(fd, "flex")] + args + ["-o", cp, lp], stdout=subprocess.PIPE, stderr=subprocess.PIPE, text=True, timeout=600)
            n += 1; run.note_case(dict(k="bigtables", g=gname, a=args))
            if p.returncode != 0:
                run.violation("bigtables:refused", "flex %s refuses the large rule set '%s': %s" % (" ".join(args), gname, p.stderr[:300]), dict(args=args), [lp]); continue
            q_ = subprocess.run(["gcc", "-O0", "-Werror=overflow", "-o", exe, cp], stdout=subprocess.PIPE, stderr=subprocess.STDOUT, text=True, timeout=600)
            if q_.returncode != 0:
                run.violation("bigtables:compile", "the scanner flex %s generates for the large rule set '%s' does not compile cleanly (a table initialiser does not fit its element type?): %s"
                              % (" ".join(args), gname, q_.stdout[:400].replace("\n", " | ")), dict(args=args), [lp]); continue
            try:
                r = subprocess.run([exe], input=inp.encode(), stdout=subprocess.PIPE, stderr=subprocess.PIPE, timeout=60)
                outs[" ".join(args) or "(default)"] = (r.returncode, r.stdout)
            except subprocess.TimeoutExpired:
                outs[" ".join(args) or "(default)"] = (-9, b"")
        vals = list(outs.items())
        # the reference: what the keyword list itself says (first rule wins over the identifier rule; longest match)
        for name, (rc, out) in vals:
            if (rc, out) != vals[0][1] or rc != 0:
                run.violation("bigtables:differs", "large rule set '%s': flex %s and flex %s give different token streams (exit %s / %s)"
                              % (gname, vals[0][0], name, vals[0][1][0], rc), dict(a=vals[0][0], b=name), [lp]); break
    run.unit("bigtables", scanners=n, keywords=len(kw))


@check("C04")
def c04(run):
    fd = build.build_flex()
    rng = random.Random(run.seed)
    q = run.tier == "quick"
    srcs = [s for s in fam(run, profiles=("nul", "high", "seven", "mix"), core=4 if q else 8, rnd=30)]
    srcs = [s for s in srcs if s.get("profile") or "nul" in s.get("name", "")]
    cfgs = tbl_cfgs(["", "-C", "-Cf", "-CF", "-Cfe", "-CFe", "-Cfa"], inter=(None, False)) + tbl_cfgs(["", "-Cm"], inter=(None, False), reject=(True,))
    cfgs += [{"flavour": "c99", "tbl": t} for t in ("", "-Cf", "-CF", "-Cfe")] + [{"flavour": "c99", "interactive": False, "reject": True},
                                                                                   {"flavour": "c99", "array": True, "yymore": True}, {"flavour": "cxx"}, {"flavour": "cxx", "tbl": "-Cf", "interactive": False},
             {"flavour": "c99", "userread": False, "extra_opts": "always-interactive"}, {"userread": False, "extra_opts": "always-interactive"},
             {"flavour": "cxx", "userread": False}]
    cases = units.product_unit(run, fd, srcs, cfgs, tag="product", san=True)
    # NUL sharing its equivalence class with other bytes, 2 ... 9 classes: every table representation
    ncl = rulesets.nulclass_family()
    cases += units.product_unit(run, fd, ncl if not q else ncl[::2], tbl_cfgs(["", "-Ce", "-Cf", "-Cfe", "-CFe", "-Cfea", "-Cem"]) + [{"flavour": "c99", "tbl": "-Cfe"}, {"flavour": "cxx", "tbl": "-Cfe"}], tag="nulclass", san=True)

    def nul_inputs(c, rng, n):
        al = c.alphabet + [0, 0] + ([255, 128] if not c.src.get("sevenbit") else [])
        base = units.cover_inputs(c, rng, n // 2)
        out = list(base)
        while len(out) < n:
            s = bytearray(rng.choice(al) for _ in range(rng.randint(1, 12)))
            s[rng.randrange(len(s))] = 0
            out.append(bytes(s))
        return out
    sel = [c for c in cases if c.status == "ok"]
    units.trace_unit(run, sel, rng, per_case=10 if q else 20, tag="nultraces", bufsizes=(0, 1, 2, 3, 5, 8),
                     scheds=[[1], [2], [1, 3], [], [7]], inputs_fn=nul_inputs, full_cover=60 if q else 150)


@check("C06")
def c06(run):
    fd = build.build_flex()
    rng = random.Random(run.seed)
    q = run.tier == "quick"
    srcs = fam(run, profiles=("trail", "anch", "bol", "bar", "mix"), core=6 if q else 10, rnd=60)
    cfgs = [{"tbl": ""}, {"tbl": "-Cf"}, {"tbl": "-CF"}, {"tbl": "", "reject": True, "interactive": False}, {"flavour": "c99"}]
    cases = units.product_unit(run, fd, srcs, cfgs, tag="product", san=True)
    units.trace_unit(run, [c for c in cases if c.status == "ok"], rng, per_case=6 if q else 12, tag="traces", full_cover=600 if q else 1500)
    run.assumptions += ["rule sets for which flex prints 'dangerous trailing context' are skipped (as the property allows)",
                        "whether a rule is compiled as *variable* trailing context is taken from the artifact (DESIGN.md C06)"]


@check("C07")
def c07(run):
    fd = build.build_flex()
    rng = random.Random(run.seed)
    q = run.tier == "quick"
    srcs = fam(run, profiles=("lit", "ops", "trail", "sc", "mix", "ccl", "rep"), core=3 if q else 6, rnd=40)
    cfgs = [{"tbl": "", "reject": True, "yymore": True}, {"tbl": "-Cm", "reject": True, "interactive": False},
            {"flavour": "c99", "reject": True, "yymore": True}]
    cases = units.product_unit(run, fd, srcs, cfgs, tag="product", san=True)
    units.trace_unit(run, [c for c in cases if c.status == "ok"], rng, per_case=24 if q else 48, tag="rejtraces",
                     full_cover=40 if q else 100)
    # the same REJECT scanners with their tables loaded from a file (yy_accept / yy_acclist are serialized separately)
    tsrcs = srcs[:14 if q else 40]
    tf = units.product_unit(run, fd, tsrcs, [dict(cfgs[0], tablesfile=True)], tag="tfile", san=True)
    incode = {c.src.get("name"): c for c in cases if c.cfg.get("tbl") == "" and c.cfg.get("flavour", "nr") == "nr" and c.status == "ok"}
    loaded = []
    for b in tf:
        a = incode.get(b.src.get("name"))
        if a and b.status == "ok" and b.gen and b.gen.get("tables") and os.path.exists(b.gen["tables"]):
            b.T = a.T; b.states = a.states; loaded.append(b)
    units.trace_unit(run, loaded, rng, per_case=16 if q else 32, tag="rejloaded", full_cover=40 if q else 100)
    # REJECT found by flex in the action text (no %option reject), batch and interactive, NUL bytes in the input
    asrcs = fam(run, profiles=("nul", "lit", "trail", "mix"), core=3 if q else 5, rnd=10 if q else 20)
    acfgs = [{"tbl": "", "reject": "auto", "interactive": False}, {"tbl": "-Ca", "reject": "auto", "yymore": "auto", "interactive": True},
             {"tbl": "-Cem", "reject": "auto", "interactive": False, "flavour": "r", "array": True}]
    acases = units.product_unit(run, fd, asrcs, acfgs, tag="autoproduct", san=True)
    def nulrich(c, rng, n):
        base = units.cover_inputs(c, rng, n // 2)
        al = c.alphabet + [0, 0]
        return base + [bytes(rng.choice(al) for _ in range(rng.randint(1, 10))) for _ in range(n - len(base))]
    units.trace_unit(run, [c for c in acases if c.status == "ok"], rng, per_case=16 if q else 32, tag="autoreject",
                     inputs_fn=nulrich, bufsizes=(0, 0, 4), full_cover=40 if q else 100)
    # many more small rule sets, tables only: the order of the accepting lists (yy_acclist) against the ordered
    # accepting sets of the specification, in every product state
    # (a seeded change that leaves some accepting lists unsorted - after a hash collision in the subset construction -
    # showed in about 0.75% of such rule sets: hence their number)
    more = []
    k = 0
    while len(more) < (420 if q else 2000):
        g = rulesets.gen_ruleset(random.Random((run.seed + 1) * 1000003 + k), ("ops", "ref", "trail", "grp", "rep", "ccl")[k % 6], name="rnd-acc-%d" % k); k += 1
        more.append(g)
    units.product_unit(run, fd, more, [{"tbl": "", "reject": True}], tag="acclists")
    # REJECT together with -Cf/-CF must be refused
    units.product_unit(run, fd, srcs[:6], tbl_cfgs(["-Cf", "-CF", "-Cfe"], reject=(True,)), tag="refusal")


def scanner_args(c):
    from . import scanner
    cc = dict(scanner.DEFAULT_CFG); cc.update(c.cfg)
    if c.src.get("sevenbit"): cc["bits"] = 7
    return scanner.flex_args(cc)


@check("C17")
def c17(run):
    fd = build.build_flex()
    q = run.tier == "quick"
    srcs = fam(run, core=4 if q else 8, rnd=80)
    for tagname, cfg in (("warn", {"tbl": ""}), ("warn-s", {"tbl": "", "extra_opts": "nodefault"}),
                         ("warn-words", {"tbl": "", "actionwords": True}), ("warn-s-words", {"tbl": "", "actionwords": True, "extra_opts": "nodefault"})):
        cases = units.product_unit(run, fd, srcs if "words" not in tagname else srcs[:len(srcs) // 3], [cfg], tag=tagname)
        for c in cases:
            if c.status != "ok": continue
            nr = len(c.src["rules"])
            useful = {s[1] for s in c.states if s[1] > 0}
            # exactness is owed unless the rule set uses REJECT or variable trailing context: decided from the source where
            # that is possible (no REJECT requested, no trailing context at all), from the artifact otherwise
            exact = (not c.T["reject"]) or (not c.cfg.get("reject") and not units.has_var_trailing_syntax(c.src))
            for k in range(1, nr + 1):
                warned = k in c.warn_unmatched
                if warned and k in useful:
                    p = next(s[2] for s in c.states if s[1] == k)
                    run.violation("warn:false", "flex warns 'rule cannot be matched' for rule %d of %s but input %s selects it" % (k, c.src.get("name"), p),
                                  dict(rule=k, path=p, cfg=c.cfg), [c.gen["l"]])
                if exact and not warned and k not in useful:
                    run.violation("warn:missing", "rule %d of %s can never be selected but flex gave no 'rule cannot be matched' warning" % (k, c.src.get("name")),
                                  dict(rule=k, cfg=c.cfg), [c.gen["l"]])
            if "nodefault" in c.cfg.get("extra_opts", ""):
                dflt = (nr + 1) in useful
                if c.warn_default and not dflt:
                    run.violation("warn:false-default", "flex warns that the default rule can be matched in %s, but no input reaches it" % c.src.get("name"),
                                  dict(cfg=c.cfg), [c.gen["l"]])
                if exact and dflt and not c.warn_default:
                    p = next(s[2] for s in c.states if s[1] == nr + 1)
                    run.violation("warn:missing-default", "-s given, input %s falls through to the default rule of %s, but flex did not warn" % (p, c.src.get("name")),
                                  dict(path=p, cfg=c.cfg), [c.gen["l"]])
    # -w / --nowarn only silences the warnings: the generated scanner is the same, byte for byte
    import subprocess
    wd = os.path.join(run.work, "nowarn"); os.makedirs(wd, exist_ok=True)
    for c in [c for c in cases if c.status == "ok"][:12 if q else 60]:
        outs = []
        for tag_, args in (("plain", []), ("w", ["-w"]), ("nowarn", ["--nowarn"])):
            cp = os.path.join(wd, "s.c")       # same output name: the #line directives agree
            p = subprocess.run([os.path.join(fd, "flex")] + scanner_args(c) + args + ["-o", cp, c.gen["l"]], stdout=subprocess.PIPE, stderr=subprocess.PIPE, text=True)
            outs.append((p.returncode, open(cp).read() if p.returncode == 0 and os.path.exists(cp) else None, p.stderr))
        run.note_case(dict(c=c.id, k="nowarn"))
        for k_ in (1, 2):
            if outs[k_][0] != outs[0][0] or outs[k_][1] != outs[0][1]:
                run.violation("warn:nowarn-changes-scanner", "flex %s on %s: suppressing warnings changed the result (exit %s vs %s, scanner %s)"
                              % (("-w", "--nowarn")[k_ - 1], c.src.get("name"), outs[k_][0], outs[0][0], "differs" if outs[k_][1] != outs[0][1] else "same"), dict(cfg=c.cfg), [c.gen["l"]])
                break
            if "warning" in outs[k_][2]:
                run.violation("warn:nowarn-ignored", "flex %s on %s still prints warnings: %s" % (("-w", "--nowarn")[k_ - 1], c.src.get("name"), outs[k_][2][:200]), dict(cfg=c.cfg), [c.gen["l"]])
                break
    run.assumptions.append("for REJECT / variable trailing context rule sets only 'no false warning' is checked (as the property states)")


def stack_scripts(rng, c, n=6):
    """scripts that exercise the start-condition stack beyond its initial allocation (25)"""
    nsc = len(c.src["scs"])
    out = []
    for _ in range(n):
        ops = []
        depth = rng.choice([3, 26, 27, 51])
        for i in range(depth):
            ops.append(("P", rng.randrange(nsc)))
            if rng.random() < 0.2: ops.append(("Q", 0))
        ops.append(("-", 0))
        for i in range(depth):
            ops.append(("O", 0))
            if rng.random() < 0.3: ops.append(("Q", 0)); 
            if rng.random() < 0.2: ops.append(("-", 0))
        if rng.random() < 0.5: ops += [("X", 0)]      # one pop too many: must be the reported fatal error
        ops.append(("-", 0))
        out.append(ops)
    return out


@check("C05")
def c05(run):
    fd = build.build_flex()
    rng = random.Random(run.seed)
    q = run.tier == "quick"
    mc = units.model_async(run, invariants=(), properties=('ScOnly', 'StackLIFO'))
    srcs = fam(run, profiles=("sc", "sc3", "anch", "mix"), core=6 if q else 10, rnd=60) + rulesets.manysc_family()
    # activation: all inputs, all (condition, bol) start states, rendered as prefixes and as scopes
    cfgs = [{"tbl": "", "stack": True}, {"tbl": "", "scopes": True}, {"tbl": "-Cf"}, {"tbl": "", "reject": True}, {"flavour": "c99", "stack": True}]
    cases = units.product_unit(run, fd, srcs, cfgs, tag="product", san=True)
    ok = [c for c in cases if c.status == "ok" and not c.cfg.get("scopes")]
    units.trace_unit(run, ok, rng, per_case=10 if q else 20, tag="sctraces", full_cover=400 if q else 1000)
    # deep stacks / underflow
    deep = [c for c in ok if c.cfg.get("tbl") == "" and not c.cfg.get("reject")][:12 if q else 30]
    scr = {}
    def jf(c, job):
        lst = scr.setdefault(c.id, stack_scripts(random.Random(run.seed + hash(c.id) % 1000), c))
        job["ops"] = lst[len(job["input"]) % len(lst)]
        if len(job["input"]) < 3: job["input"] = job["input"] + bytes(c.alphabet[:3])
        return job
    units.trace_unit(run, deep, rng, per_case=8, tag="deepstack", job_filter=jf)
    # start-condition calls made while no scan is in progress: before the first yylex() call (also: after the
    # yylex_destroy() that ended the previous job of the same process), between calls, after the end of input
    def precall(c, job):
        r = random.Random(hash((c.id, bytes(job["input"]), "pre")) & 0xffffffff)
        nsc = len(c.src["scs"])
        pre = [(r.choice("BP"), r.randrange(nsc)) for _ in range(r.randint(1, 3))]
        if not c.cfg.get("stack", True): pre = [("B", a) for _, a in pre]
        job["outs"] = pre + [("-", 0)] + [x for _ in range(4) for x in ([(r.choice("BPO"), r.randrange(nsc))] if r.random() < 0.5 else []) + [("-", 0)]]
        job["ops"] = [x for _ in range(8) for x in ([("O", 0)] if r.random() < 0.5 else []) + [("T", 0) if r.random() < 0.6 else ("-", 0)]]
        job["initsc"] = 0
        return job
    units.trace_unit(run, [c for c in ok if c.cfg.get("stack", True)][:40 if q else 100], rng, per_case=6 if q else 12, tag="precall", job_filter=precall, scripts=False)
    run.assumptions.append("calls between yylex() calls and across yyrestart/buffer switches: see the buffer units of C10/C11")
    mc.result()


@check("C08")
def c08(run):
    fd = build.build_flex()
    rng = random.Random(run.seed)
    q = run.tier == "quick"
    mc = units.model_async(run, invariants=('Conservation',), properties=())
    srcs = fam(run, profiles=("lit", "ops", "ccl", "dot", "nul", "high", "trail", "mix"), core=3 if q else 6, rnd=40)
    cfgs = []
    for arr in (False, True):
        for fl in ("nr", "r"):
            cfgs.append({"flavour": fl, "array": arr, "yymore": True})
    cfgs.append({"tbl": "-Cf", "yymore": True})
    cfgs += [{"tbl": "-Cf", "yymore": True, "array": True}, {"tbl": "-CF", "yymore": True, "array": True, "flavour": "r"},
             {"flavour": "c99", "tbl": "-Cfe", "yymore": True, "array": True}]
    cfgs += [{"flavour": "c99", "yymore": True}, {"flavour": "c99", "yymore": True, "array": True}, {"flavour": "cxx", "yymore": True},
             {"flavour": "cxx", "yymore": True, "userread": False}]
    cases = units.product_unit(run, fd, srcs, cfgs, tag="product", san=True)
    def arrayless_probe(sub):
        src = rulesets.handwritten()[0]
        cs = units.product_unit(sub, fd, [src], [{"array": True, "yymore": True}], tag="p", san=True)
        for c in cs:
            if c.gen: c.gen["exe"] = _rebuild_with(c, fd, sub, ["-DVF_PROBE_ARRAYLESS"])
        def jf(c, job):
            job["ops"] = [("M", 0), ("-", 0), ("L", 2), ("-", 0)]; job["initsc"] = 2; return job
        units.trace_unit(sub, cs, random.Random(1), per_case=1, tag="t", scripts=False, scheds=[[3]], job_filter=jf,
                         inputs_fn=lambda c, r, n: [bytes([97, 98, 98, 99, 10])])
    run.probe("array-yyless-after-yymore", arrayless_probe)
    units.trace_unit(run, [c for c in cases if c.status == "ok"], rng, per_case=16 if q else 32, tag="edits",
                     bufsizes=(0, 0, 1, 2, 3, 8, 16), scheds=[[1], [2, 1], [], [5]],
                     script_modes=("random", "random", "moreless"), maxops=40)
    # yyinput() running into the end of a buffer: its end-of-input value only "after yywrap processing" - with a scripted
    # yywrap() that stops, re-points yyin, switches to file / in-memory buffers or pops back (the buffer scenarios of C11)
    wcases = units.product_unit(run, fd, srcs[:10 if q else 30], [{"userwrap": True, "yymore": True}, {"userwrap": True, "flavour": "c99"}], tag="wrapproduct", san=True)
    units.trace_unit(run, [c for c in wcases if c.status == "ok"], rng, per_case=10 if q else 20, tag="inputwrap", job_filter=buffer_jobs("buf"), scripts=False)
    mc.result()


@check("C09")
def c09(run):
    fd = build.build_flex()
    rng = random.Random(run.seed)
    q = run.tier == "quick"
    mc = units.model_async(run, invariants=('LinenoExact',), properties=())
    srcs = fam(run, profiles=("lit", "dot", "ccl", "posix", "setop", "grp", "ref", "trail", "anch", "mix"), core=2 if q else 5, rnd=30)
    srcs += newline_forms()
    cfgs = [{"yymore": True}, {"flavour": "r", "yymore": True}, {"reject": True, "interactive": False},
            {"array": True, "yymore": True}, {"yylineno": "no"}, {"tbl": "-Cf"}, {"flavour": "c99", "yymore": True, "reject": True}, {"flavour": "cxx", "yymore": True}]
    cases = units.product_unit(run, fd, srcs, cfgs, tag="product", san=True)

    def nl_inputs(c, rng, n):
        base = units.cover_inputs(c, rng, n // 2)
        al = c.alphabet + [10, 10, 10, 0]      # (a NUL byte in front of a newline: text handled as a C string stops there)
        return base + [bytes(rng.choice(al) for _ in range(rng.randint(1, 14))) for _ in range(n - len(base))]
    units.trace_unit(run, [c for c in cases if c.status == "ok"], rng, per_case=14 if q else 28, tag="lineno",
                     inputs_fn=nl_inputs, bufsizes=(0, 0, 3, 8))
    mc.result()


def newline_forms():
    """every way a rule can come to match a newline (C09's quantifier)"""
    P = rulesets.P; c = P.chr_; R = rulesets.rule
    nl = 10
    forms = {
        "literal": c(nl), "cesc": c(nl, "cesc"), "oct": c(nl, "oct"), "hex": c(nl, "hex"),
        "string": P.str_([97, nl]), "class": P.ccl([P.cb(nl), P.cb(97)]), "negclass": P.ccl([P.cb(97)], neg=True),
        "range": P.ccl([P.cr(9, 13)]), "posix": P.ccl([P.cp("space")]), "negposix": P.ccl([P.cnp("alpha")]),
        "dotall": P.grp(P.dot(), s=1), "dotall-x": P.grp(P.cat(c(97), P.dot()), s=1, x=1),
        "diff": P.diff(P.ccl([P.cb(97)], neg=True), P.ccl([P.cb(98)])), "union": P.union(P.ccl([P.cb(97)]), P.ccl([P.cb(nl)])),
        "negclass-run": P.plus(P.ccl([P.cb(97)], neg=True)), "dotall-run": P.grp(P.cat(P.star(P.dot()), c(122)), s=1),   # long tokens: newlines behind other bytes (NUL)
        "def": P.ref(1), "star": P.cat(c(97), P.star(c(nl))), "alt": P.alt(c(97), c(nl)), "rep": P.rep(P.ccl([P.cb(nl), P.cb(98)]), 1, 2),
    }
    out = []
    for name, f in forms.items():
        rules = [R(P.cat(c(120), f)), R(P.plus(P.ccl([P.cr(97, 122)])))]
        out.append(rulesets.ruleset(rules, defs=[P.ccl([P.cb(nl), P.cb(121)])], name="nlform-" + name))
    # trailing context holding the newline; '$'; newline in the head of r/s
    out.append(rulesets.ruleset([R(c(97), P.cat(c(nl), c(98))), R(c(98)), R(P.cat(c(99), c(nl)), c(100)), R(c(100), dollar=True),
                                 R(P.plus(c(101)), P.star(c(nl)) if False else P.plus(c(nl)))], name="nlform-trailing"))
    # head (fixed / fixed ending in a newline / variable) x trailing context (fixed / variable) holding newlines
    ws = P.ccl([P.cb(32), P.cb(nl)])
    heads = {"fix": P.lit("en"), "fixnl": P.cat(c(101), c(nl)), "var": P.plus(c(101)), "varnl": P.plus(P.ccl([P.cb(101), P.cb(nl)]))}
    trails = {"fix": P.cat(c(nl), c(nl), c(59)), "star": P.cat(P.star(ws), c(59)), "plus": P.cat(P.plus(ws), c(59)),
              "alt": P.cat(P.plus(P.alt(c(nl), c(32))), c(59)), "opt": P.cat(P.opt(c(nl)), P.opt(c(32)), P.opt(c(nl)), c(59)),
              "rep": P.cat(P.rep(ws, 1, 4), c(59))}
    for hn, h in heads.items():
        for tn, t in trails.items():
            if hn == "varnl" and tn != "fix": continue       # both parts variable and overlapping: dangerous trailing context
            out.append(rulesets.ruleset([R(h, t), R(P.alt(P.dot(), c(nl)))], name="nlform-tc-%s-%s" % (hn, tn)))
    return out


def buffer_jobs(kind):
    """job_filter producing multi-source / multi-buffer scenarios"""
    from . import traces
    def jf(c, job):
        rng = random.Random(hash((c.id, bytes(job["input"]), kind)) & 0xffffffff)
        nf = rng.randint(2, 4)
        al = c.alphabet
        job["files"] = [bytes(rng.choice(al) for _ in range(rng.randint(0, 6))) for _ in range(nf - 1)]
        bs = traces.BufScript(rng, c, nf)
        if kind == "eof":
            job["ops"] = [(rng.choice("BP-"), rng.randrange(len(c.src["scs"]))) if rng.random() < 0.3 else ("-", 0) for _ in range(6)]
            job["ops"] = [o if o[0] != "-" else ("-", 0) for o in job["ops"]]
            job["wraps"] = bs.wrap_script(rng.randint(1, 5))
            job["outs"] = bs.after_end(rng.randint(0, 3))
        else:
            job["ops"] = bs.action_script(rng.randint(2, 10))
            job["outs"] = bs.outer_script(rng.randint(0, 6))
            job["wraps"] = bs.wrap_script(rng.randint(0, 3)) if c.cfg.get("userwrap") else []
        job["bufsize"] = rng.choice([0, 0, 2, 4, 16])
        return job
    return jf


@check("C10")
def c10(run):
    fd = build.build_flex()
    rng = random.Random(run.seed)
    q = run.tier == "quick"
    srcs = fam(run, profiles=("sc3", "sc", "lit", "trail", "anch", "mix"), core=3 if q else 6, rnd=40)
    cfgs = [{"userwrap": True}, {"userwrap": True, "flavour": "r"}, {"userwrap": False}, {"userwrap": True, "tbl": "-Cf"},
            {"userwrap": True, "reject": True, "interactive": False}, {"userwrap": True, "flavour": "c99"}, {"userwrap": True, "flavour": "cxx"},
            {"userwrap": True, "flavour": "cxx", "userread": False}, {"userwrap": True, "userread": False}]
    cases = units.product_unit(run, fd, srcs, cfgs, tag="product", san=True)
    ok = [c for c in cases if c.status == "ok"]
    units.trace_unit(run, ok, rng, per_case=16 if q else 32, tag="eof", job_filter=buffer_jobs("eof"), scripts=False)


@check("C11")
def c11(run):
    fd = build.build_flex()
    rng = random.Random(run.seed)
    q = run.tier == "quick"
    mc = units.model_async(run, invariants=('Conservation',), properties=('Isolation',))
    srcs = fam(run, profiles=("lit", "sc", "ccl", "anch", "nul", "mix"), core=3 if q else 6, rnd=40)
    cfgs = [{"userwrap": False}, {"userwrap": True}, {"userwrap": False, "flavour": "r"}, {"userwrap": True, "flavour": "r", "tbl": "-Cf"},
            {"userwrap": True, "flavour": "c99"}, {"userwrap": True, "flavour": "cxx"}]
    cases = units.product_unit(run, fd, srcs, cfgs, tag="product", san=True)
    ok = [c for c in cases if c.status == "ok"]
    units.trace_unit(run, ok, rng, per_case=20 if q else 40, tag="buffers", job_filter=buffer_jobs("buf"), scripts=False)
    mc.result()


@check("C03")
def c03(run):
    fd = build.build_flex()
    rng = random.Random(run.seed)
    q = run.tier == "quick"
    srcs = fam(run, profiles=("lit", "ops", "rep", "ccl", "dot", "trail", "anch", "sc", "high", "mix"), core=3 if q else 6, rnd=40)
    # (a) no over-read / schedule independence with the harness's own YY_INPUT: every Read event must be
    #     needed (strictread), for interactive and batch scanners, buffer sizes 1..64 and every read-size pattern
    cfgs = [{"interactive": True}, {"interactive": False}, {"tbl": "-Cf"}, {"tbl": "-CF"},
            {"reject": True, "interactive": True}, {"flavour": "r", "interactive": True},
            {"flavour": "c99", "interactive": True}, {"flavour": "c99", "interactive": False, "tbl": "-Cf"}, {"flavour": "cxx", "interactive": True}]
    cases = units.product_unit(run, fd, srcs, cfgs, tag="product", san=True)
    ok = [c for c in cases if c.status == "ok"]

    def long_inputs(c, rng, n):
        base = units.cover_inputs(c, rng, n // 2)
        al = [b for b in c.alphabet if b != 0] or c.alphabet     # NUL over-read: see known finding
        out = list(base)
        while len(out) < n:
            s = bytes(rng.choice(al) for _ in range(rng.choice([3, 9, 20, 40, 70])))
            out.append(s)
        return [bytes(b for b in s if b != 0) for s in out]
    units.trace_unit(run, ok, rng, per_case=12 if q else 24, tag="schedules", strictread=True, scripts=False,
                     bufsizes=(0, 1, 2, 3, 4, 7, 16, 64), scheds=[[1], [2], [3], [1, 2], [5, 1], [], [64], [2, 1, 4]],
                     inputs_fn=long_inputs)
    # (b) the scanner's own YY_INPUT (stdio) and in-memory delivery: same specification, same tokens
    cfgs2 = [{"userread": False}, {"userread": False, "interactive": False}, {"userread": False, "tbl": "-Cf"},
             {"userread": False, "extra_opts": "always-interactive"}, {"userread": False, "extra_opts": "always-interactive", "flavour": "r", "tbl": "-Ca"},
             {"userread": False, "flavour": "c99"}, {"userread": False, "flavour": "c99", "extra_opts": "always-interactive"},
             {"userread": False, "flavour": "cxx"}, {"userread": False, "flavour": "cxx", "interactive": True}]
    cases2 = units.product_unit(run, fd, srcs[:40 if q else 100], cfgs2, tag="stdio", san=True)

    def mem_delivery(c, job):
        r = random.Random(hash((c.id, bytes(job["input"]))) & 0xffffffff)
        k = r.random()
        if k < 0.5:
            job["files"] = [job["input"]]
            job["outs"] = [(r.choice("yz"), 1), ("-", 0)]     # scan the same bytes from memory instead
            job["input"] = b""
        return job
    units.trace_unit(run, [c for c in cases2 if c.status == "ok"], rng, per_case=10 if q else 20, tag="delivery",
                     scripts=False, bufsizes=(0, 1, 3, 8), scheds=[[1], [3], [], [2, 5]], job_filter=mem_delivery, inputs_fn=long_inputs)
    # (c) read(2) (%option read): no stream in between, so the no-over-read clause applies in full
    cfgs3 = [{"useread": True, "userread": False, "interactive": True}, {"useread": True, "userread": False, "interactive": False, "flavour": "r"},
             {"useread": True, "userread": False, "interactive": True, "flavour": "c99"}]
    cases3 = units.product_unit(run, fd, srcs[:30 if q else 80], cfgs3, tag="read2", san=True)
    units.trace_unit(run, [c for c in cases3 if c.status == "ok"], rng, per_case=10 if q else 20, tag="read2traces", strictread=True, scripts=False,
                     bufsizes=(0, 1, 3, 16), scheds=[[1], [2], [], [5, 1]], inputs_fn=long_inputs)
    units.buffer_model_unit(run)
    # known finding: an interactive scanner asks for one more byte after a NUL that completes a token
    def nul_probe(sub):
        P = rulesets.P
        src = rulesets.ruleset([rulesets.rule(P.cat(P.chr_(97), P.chr_(0))), rulesets.rule(P.chr_(98))], name="probe-nul-overread")
        cs = units.product_unit(sub, fd, [src], [{"interactive": True}], tag="p", san=True)
        units.trace_unit(sub, cs, random.Random(1), per_case=1, tag="t", strictread=True, scripts=False, scheds=[[1]],
                         inputs_fn=lambda c, r, n: [bytes([97, 0, 98])])
    run.probe("nul-overread", nul_probe)
    run.assumptions += ["tokens longer than the buffer: REJECT scanners and user-owned yy_scan_buffer buffers are only given tokens that fit (as the property states)",
                        "%option always-interactive (line-at-a-time getc loop) is not held to the no-over-read clause"]


@check("C13")
def c13(run):
    fd = build.build_flex()
    rng = random.Random(run.seed)
    q = run.tier == "quick"
    srcs = fam(run, profiles=("lit", "ccl", "nul", "sc", "trail", "mix"), core=2 if q else 5, rnd=24)
    # (i) every index the matching loop can form, in every table representation (IndexSafe of MC_Product)
    cfgs = [{"tbl": t, "heap": True, "yymore": True} for t in ("", "-C", "-Cf", "-CF", "-Cfe", "-Ca")] + \
           [{"reject": True, "heap": True, "yymore": True, "array": True}, {"flavour": "r", "heap": True, "yymore": True, "userwrap": True},
            {"flavour": "r", "heap": True, "reject": True, "array": True}, {"flavour": "c99", "heap": True, "yymore": True, "userwrap": True},
            {"flavour": "c99", "heap": True, "reject": True, "array": True}, {"flavour": "cxx", "heap": True, "yymore": True, "userwrap": True}]
    cases = units.product_unit(run, fd, srcs, cfgs, tag="product", san=True)
    ok = [c for c in cases if c.status == "ok"]
    # (ii) API histories under ASan/UBSan with the allocation ledger: edits, stack growth, buffers, destroy and reuse
    def jf(c, job):
        r = random.Random(hash((c.id, bytes(job["input"]))) & 0xffffffff)
        if r.random() < 0.5:
            job = buffer_jobs("buf")(c, job)
        if r.random() < 0.2:
            job["ops"] = stack_scripts(r, c, 1)[0]
        return job
    units.trace_unit(run, ok, rng, per_case=10 if q else 20, tag="histories", job_filter=jf, bufsizes=(0, 1, 2, 5, 16), maxops=40)
    # known finding: the C++ lexer class obtains its REJECT state buffer with new[] and enlarges it with yyrealloc() when a buffer
    # larger than YY_BUF_SIZE becomes current (the harness's buffers are smaller than that, so the histories above never get there)
    def cxxrej_probe(sub):
        import subprocess, tempfile
        wd = tempfile.mkdtemp(prefix="cxxrej.", dir=sub.work)
        open(os.path.join(wd, "p.l"), "w").write(
            "%option c++ noyywrap\n%{\n#include <iostream>\n#include <sstream>\n%}\n%%\nabc\t{ REJECT; }\n.|\\n\t{ }\n%%\n"
            "int main() { std::istringstream in(\"abcabc\\n\"); yyFlexLexer lexer;\n"
            "  lexer.yy_switch_to_buffer(lexer.yy_create_buffer(in, 4 * YY_BUF_SIZE));\n  while (lexer.yylex() != 0) ;\n  return 0; }\n")
        a = subprocess.run([os.path.join(fd, "flex"), "-o", "p.cc", "p.l"], cwd=wd, stdout=subprocess.PIPE, stderr=subprocess.STDOUT, text=True)
        b = subprocess.run(["g++", "-g", "-w", "-fsanitize=address", "-I", fd, "-o", "p", "p.cc"], cwd=wd, stdout=subprocess.PIPE, stderr=subprocess.STDOUT, text=True)
        if a.returncode or b.returncode:
            sub.error("cxxrej probe did not build: %s %s" % (a.stdout[-300:], b.stdout[-300:])); return
        r = subprocess.run(["./p"], cwd=wd, stdout=subprocess.PIPE, stderr=subprocess.PIPE, text=True, errors="replace", timeout=60,
                           env=dict(os.environ, ASAN_OPTIONS="alloc_dealloc_mismatch=1:detect_leaks=1"))
        sub.note_case(dict(probe="cxx-reject-realloc"))
        if r.returncode != 0:
            sub.violation("trace:crash", "C++ REJECT scanner switched to a buffer of 4*YY_BUF_SIZE: %s" % " | ".join(
                l.strip() for l in r.stderr.splitlines() if "ERROR" in l or "yyrealloc" in l or "operator new" in l)[:400],
                dict(stderr=r.stderr[:1500]), [os.path.join(wd, "p.l")])
    run.probe("cxx-reject-realloc", cxxrej_probe)
    # (ii') tables loaded from a file that holds another scanner's set in front of ours (documented: sets may be concatenated):
    # what yytables_fload() allocates while skipping it has to be handed back as well (LeakSanitizer at the end of the process)
    tsrc = srcs[:3 if q else 8]
    tin = units.product_unit(run, fd, tsrc, [{"tbl": "", "yymore": True}, {"tbl": "-Cf", "flavour": "r"}], tag="tincode", san=True)
    ttf = units.product_unit(run, fd, tsrc, [{"tbl": "", "yymore": True, "tablesfile": True}, {"tbl": "-Cf", "flavour": "r", "tablesfile": True}], tag="tfile", san=True)
    shared = []
    for a, b in zip(tin, ttf):
        if a.status == "ok" and b.status == "ok" and b.gen and b.gen.get("tables") and os.path.exists(b.gen["tables"]):
            data = open(b.gen["tables"], "rb").read()
            open(b.gen["tables"], "wb").write(data.replace(b"yytables\0", b"zztables\0") + data.replace(b"yytables\0", b"qqtables\0") + data)
            b.T = a.T; b.states = a.states; shared.append(b)
    units.trace_unit(run, shared, rng, per_case=4 if q else 10, tag="sharedtables", maxops=20)
    # (iii) %array capacity: text accumulated with yymore() up to and beyond YYLMAX must end in the documented fatal error
    P = rulesets.P
    big = rulesets.ruleset([rulesets.rule(P.plus(P.ccl([P.cr(97, 122)]))), rulesets.rule(P.chr_(10))], name="array-capacity")
    bc = units.product_unit(run, fd, [big], [{"array": True, "yymore": True, "heap": True, "yylmax": 40},
                                             {"array": True, "yymore": True, "flavour": "r", "yylmax": 40},
                                             {"array": True, "yymore": True, "reject": True, "yylmax": 40}], tag="bigp", san=True)
    def bigjobs(c, job):
        k = len(job["input"]) % 7          # below, at and beyond the capacity
        job["input"] = (b"abcde" + b"\n") * (4 + k) + b"ab\n" + b"a" * (30 + k) + b"\n"
        job["ops"] = [("M", 0), ("-", 0)] * 30
        job["sched"] = [7]; job["bufsize"] = 0; job["initsc"] = 0
        return job
    units.trace_unit(run, [c for c in bc if c.status == "ok"], rng, per_case=14, tag="capacity", job_filter=bigjobs, scripts=False)
    units.buffer_model_unit(run)
    wd = os.path.join(run.work, "histories")
    units.validate_heap(run, [(c, os.path.join(wd, "t-%s.ndjson.heap" % c.id)) for c in ok], "ledger")
    run.assumptions += ["undefined behaviour outside the modelled table/buffer indices and the ledger is observed by the ASan/UBSan monitor attached to every run (reported as event Crash, which no specification action produces)"]


@check("C14", "fault_enumeration")
def c14(run):
    fd = build.build_flex()
    rng = random.Random(run.seed)
    q = run.tier == "quick"
    srcs = fam(run, profiles=("lit", "sc", "trail", "mix"), core=1, rnd=6 if q else 20, hand=False) + rulesets.handwritten()[:3]
    cfgs = [{"heap": True, "yymore": True, "userread": False}, {"heap": True, "reject": True, "userread": False, "array": True},
            {"heap": True, "flavour": "r", "userwrap": True, "userread": False}, {"heap": True, "tbl": "-Cf", "userread": False},
            {"heap": True, "flavour": "c99", "userwrap": True, "userread": False, "yymore": True},
            {"heap": True, "useread": True, "userread": False}, {"heap": True, "useread": True, "userread": False, "flavour": "c99"},
            # interactive buffers are filled by a getc() loop of their own: its interrupted / failing reads are fault points too
            {"heap": True, "userread": False, "extra_opts": "always-interactive", "yymore": True},
            {"heap": True, "userread": False, "extra_opts": "always-interactive", "flavour": "c99"}]
    cases = units.product_unit(run, fd, srcs, cfgs, tag="product", san=True)
    units.fault_unit(run, [c for c in cases if c.status == "ok"], rng, per_case=2 if q else 4, max_points=30 if q else 100)
    run.assumptions += ["one fault per run (single-fault enumeration over every allocation index / read index of each scenario, capped per scenario in the quick tier)"]


# ------------------------------------------------------------------ generator side (flex as a process)
def _valid_specs(run, n=10):
    """complete, self-contained, compilable specifications"""
    from . import scanner
    srcs = rulesets.handwritten()[:4] + rulesets.random_family(run.seed, n)
    out = []
    for i, s in enumerate(srcs):
        s = json.loads(json.dumps(s))
        for k, r in enumerate(s["rules"]): r["action"] = "{ n%d++; if (yyleng > 90) return %d; }" % (k % 3, k + 1)
        hdr = ["%option noyywrap" + (" case-insensitive" if s.get("ci") else "") + (" posix-compat" if s.get("posix") else "")]
        hdr += [("%x " if c["excl"] else "%s ") + c["name"] for c in s["scs"][1:]]
        text = "\n".join(hdr + ["%{", "#include <stdio.h>", "static int n0, n1, n2;", "%}"] + scanner.render_defs(s, s.get("posix", False)) + ["%%"]
                         + [l.replace("{ VEOF(", "{ return 0; /* ").replace(") }", " */ }") if "VEOF(" in l else l for l in scanner.render_rules(s, s.get("posix", False))]
                         + ["%%", "int main(void) { while (yylex()) ; printf(\"%d %d %d\\n\", n0, n1, n2); return 0; }", ""])
        out.append((s.get("name", "s%d" % i), text.encode("latin-1"), s))
    return out


def _obs_check(run, obs, cfgname, tag, describe):
    """have TLC judge the observation table against FlexProc; report the first offending observations"""
    from . import tlc as T
    if not obs: return
    path = os.path.join(run.work, tag + ".obs.ndjson")
    remaining = list(obs)
    rounds = 0
    while remaining and rounds < 12:
        rounds += 1
        with open(path, "w") as f:
            for o in remaining:
                f.write(json.dumps({k: v for k, v in o.items() if k not in ("stderr", "cmd", "what", "files")}) + "\n")
        r = T.run("FlexProc", cfg=cfgname, env={"OBS": path}, workers=1, timeout=600)
        run.add_tlc(r)
        if r.ok: break
        if not r.violated:
            run.error("FlexProc/%s failed: %s" % (cfgname, (r.error or "timeout")[:600])); break
        i = T.ints(r.last_state.get("i", "1"))[0] - 1
        o = remaining[i]
        v = run.violation("proc:" + r.violated, describe(o, r.violated), dict(obs={k: o[k] for k in o if k != "files"}), o.get("files", []))
        if cfgname == "MC_Proc18.cfg":
            remaining = [x for x in remaining if x.get("group") != o.get("group")]
        elif v.known:
            # every observation exhibiting the same known finding is set aside at once
            sig = (json.dumps(o.get("faults"), sort_keys=True), o["rc"], o["sig"])
            remaining = [x for x in remaining if (json.dumps(x.get("faults"), sort_keys=True), x["rc"], x["sig"]) != sig]
            rounds -= 1
        else:
            remaining = remaining[:i] + remaining[i + 1:]
    run.unit(tag, observations=len(obs), tlc_rounds=rounds)


@check("C16", "fault_enumeration")
def c16(run):
    from . import genside as G
    import json as _j
    fd = build.build_flex("asan")
    rng = random.Random(run.seed)
    q = run.tier == "quick"
    valid = _valid_specs(run, 6 if q else 30)
    for o_ in ():
        pass
    obs = []
    OPTS = [[], ["-Cf"], ["-CF"], ["-Ca"], ["-Ce"], ["-Cm"], ["-7"], ["-B"], ["-I"], ["-i"], ["-l"], ["-X"], ["-d"], ["-p"], ["-s"], ["-w"],
            ["-v"], ["-L"], ["-R"], ["-Cfe"], ["--bison-bridge", "-R"], ["-T"], ["--stdinit"], ["--nounistd"], ["-P", "zz"], ["--yylineno"]]
    jobs = []
    # valid specifications using the less common directives of the definitions section (#line, %pointer/%array,
    # %top, start-condition declarations with several names, comments, indented code, long definitions)
    directives = (b"#line 7 \"other.l\"\n%option noyywrap\n%pointer\n/* a comment */\n  /* indented */ static int n0;\n%top{\n#include <stdio.h>\n}\n"
                  b"%s A B\n%x C\nDIGIT  [0-9]\nID     [a-z][a-z0-9]*\n#line 40 \"third.l\"\n%%\n{DIGIT}+   n0++;\n<A,B>{ID}  n0 += 2;\n<C>.       ;\n.|\\n      ;\n%%\n"
                  b"int main(void) { while (yylex()) ; printf(\"%d\\n\", n0); return 0; }\n")
    # start-condition scopes nested more deeply than there are conditions, each naming conditions of the enclosing ones again
    # (legal: flex warns "specified twice"), with rules at every depth
    depth = 12
    scopes = (b"%option noyywrap\n%s A\n%x B C\n%%\n" + b"".join(b"<A,B,C>{\n" + (b"r%d  ;\n" % k) for k in range(depth))
              + b"<B>x ;\n" + b"}\n" * depth + b"<*>.|\\n ;\n%%\nint main(void) { while (yylex()) ; return 0; }\n")
    valid = [("directives", directives, None), ("scopes", scopes, None)] + valid
    # (a) every requested output x every write-failure mode, on valid input
    for name, text, _ in valid[:4 if q else 10]:
        for want in (("scanner",), ("scanner", "header"), ("scanner", "tables"), ("scanner", "backup"), ("scanner", "header", "tables", "backup")):
            jobs.append(dict(kind="valid", name=name, text=text, args=[], want=want, faults={}))
            for k in want:
                for mode in ("devfull", "nodir") + (("rlimit", "rlimitsig", "m4killed") if k == "scanner" and len(want) == 1 else ()):
                    jobs.append(dict(kind="fault", name=name, text=text, args=[], want=want, faults={k: mode}))
        jobs.append(dict(kind="fault", name=name, text=text, args=[], want=("scanner",), faults={"scanner": "devfull"}, stdout_scanner=True))
    # (b) valid input x option sets
    for name, text, _ in valid:
        for o in rng.sample(OPTS, 6 if q else len(OPTS)):
            jobs.append(dict(kind="valid-opts", name=name, text=text, args=o + (rng.choice(OPTS) if rng.random() < 0.3 else []), want=("scanner",), faults={}, compile_check=False))
    # (c) structural mutations and random byte strings
    for n in range(150 if q else 1500):
        name, text, _ = rng.choice(valid)
        t, what = text, []
        for _ in range(rng.randint(1, 3)):
            t, w = G.mutate(rng, t); what.append(w)
        jobs.append(dict(kind="mutant", name=name + ":" + ";".join(what), text=t, args=rng.choice(OPTS), want=("scanner",), faults={}, compile_check=False))
    for n in range(60 if q else 600):
        t = bytes(rng.randrange(256) for _ in range(rng.choice([0, 1, 5, 40, 300, 3000])))
        if rng.random() < 0.5: t = b"%%\n" + t
        jobs.append(dict(kind="random", name="random-%d" % n, text=t, args=rng.choice(OPTS), want=("scanner",), faults={}, compile_check=False))
    # (d) internal limits
    import re as _re
    fdef = open(os.path.join(build.REPO, "src", "flexdef.h")).read()
    m = _re.search(r"#define\s+YY_TRAILING_MASK\s+(0x[0-9a-fA-F]+|\d+)", fdef)
    max_rule = (int(m.group(1), 0) - 1) if m else 8191       # MAX_RULE: rule numbers share a word with the trailing-context flags
    for name, text, args in G.limit_specs():
        over = name.startswith("rules-") and int(name.split("-")[1]) + 1 > max_rule      # + the default rule
        jobs.append(dict(kind="limit", name=name, text=text, args=args, want=("scanner",), faults={}, compile_check=False, timeout=120, overlimit=over))
        jobs.append(dict(kind="limit", name=name + "-Ca", text=text, args=["-Ca"], want=("scanner",), faults={}, compile_check=False, timeout=120, overlimit=over))

    import concurrent.futures as cf
    def one(j):
        o, wd = G.run_flex(fd, j["text"], j["args"], want=j["want"], faults=j["faults"], timeout=j.get("timeout", 40),
                           stdout_scanner=j.get("stdout_scanner", False), compile_check=j.get("compile_check", True))
        o.update(kind=j["kind"], name=j["name"], group=j["name"], env="", args=" ".join(j["args"]), faults=j["faults"], want=list(j["want"]),
                 overlimit=bool(j.get("overlimit")))
        return o
    with cf.ThreadPoolExecutor(units.NCPU) as ex:
        obs = list(ex.map(one, jobs))
    for j, o in zip(jobs, obs):
        run.note_case(dict(k=j["kind"], n=j["name"], a=j["args"], f=j["faults"], w=j["want"]))
        o["_text"] = j["text"]
    run.sample(dict(kind="observation", **{k: obs[0][k] for k in ("name", "args", "rc", "diag", "outs")}))
    run.sample(dict(kind="observation", **{k: obs[-1][k] for k in ("name", "args", "rc", "diag")}))

    def describe(o, inv):
        return "flex %s on %s (%s)%s: %s fails: rc=%s signal=%s timeout=%s sanitizer=%s diagnostics=%s; outputs %s; stderr: %s" % (
            o["args"], o["name"][:80], o["kind"], (" with write fault " + _j.dumps(o["faults"])) if o["faults"] else "", inv, o["rc"], o["sig"],
            o["timeout"], o["asan"], o["diag"], [(x["kind"], x["complete"]) for x in o["outs"] if x["requested"]], o["stderr"][:200].replace("\n", " | "))
    for o in obs:
        p = os.path.join(run.work, "in-%s.l" % abs(hash(o["name"])))
        o["files"] = [p]
        open(p, "wb").write(o.pop("_text"))
    _obs_check(run, obs, "MC_Proc16.cfg", "exit-honest", describe)
    # a limit overrun must be reported like a syntax problem: some diagnostic, non-zero status (already in ExitHonest)
    run.assumptions += ["input space explored by structured mutation and seeded random bytes, not exhaustively",
                        "'complete' for scanner/header of valid input = accepted by the C compiler; for other input = non-empty file"]


@check("C18", "exploration")
def c18(run):
    from . import genside as G
    fd = build.build_flex("plain"); fda = build.build_flex("asan")
    rng = random.Random(run.seed)
    q = run.tier == "quick"
    valid = _valid_specs(run, 8 if q else 40)
    # a rule set large enough to make the generator reallocate its nxt/chk, DFA and NFA arrays
    kw = b"%option noyywrap\n%%\n" + b"".join(b"%s  return %d;\n" % (("kw%dx%d" % (i, i * 7919 % 1000)).encode(), i % 200 + 1) for i in range(1800)) + b"[a-z0-9]+ return 999;\n.|\\n ;\n%%\nint main(void){return 0;}\n"
    # many character classes and {+} / {-} results: the class table (ccltbl) is reallocated while classes are being built
    rr = random.Random(4711)
    def cls(): return "[" + "".join(sorted(set(rr.choice("abcdefghijklmnopqrstuvwxyzABCDEFGHIJKLMNOPQRSTUVWXYZ0123456789") for _ in range(rr.randint(6, 14))))) + "]"
    ccl = b"%option noyywrap\n%%\n" + "".join("%s{+}%s%s  return %d;\n" % (cls(), cls(), rr.choice(["", "+", "{-}[aeiou]"]), i + 1) for i in range(90)).encode() + b".|\\n ;\n%%\nint main(void){return 0;}\n"
    big = [("keywords-1800", kw, None), ("classes-90", ccl, None)]
    ENVS = [("base", {}, fd, None), ("perturb-a5", {"MALLOC_PERTURB_": "165"}, fd, None), ("perturb-5a", {"MALLOC_PERTURB_": "90"}, fd, None),
            ("arena1", {"MALLOC_ARENA_MAX": "1", "MALLOC_TOP_PAD_": "1"}, fd, None), ("bigenv", {"VERIF_PAD": "x" * 60000}, fd, None),
            ("cwd", {}, fd, "/tmp"), ("asan-build", {}, fda, None), ("stdout", {}, fd, None), ("file-only", {}, fd, None),
            ("stdout-named", {}, fd, None)]
    OPTS = [[], ["-Cf"], ["-CF"], ["-Cem"], ["-C"], ["-R"], ["-i"], ["-Ca"]]
    jobs = []
    for name, text, _ in valid + big:
        for o in (rng.sample(OPTS, 3 if q else len(OPTS)) if name not in ("keywords-1800", "classes-90") else [[], ["-Cf"]]):
            for en, env, f, cwd in ENVS:
                jobs.append(dict(name=name, text=text, args=o, env=env, en=en, fd=f, cwd=cwd,
                                 want=("scanner", "header", "tables") if en not in ("stdout", "file-only", "stdout-named") else ("scanner",),
                                 stdout_scanner=("named" if en == "stdout-named" else en == "stdout")))
    # text buffers of the generator at every length modulo their growth step (512 bytes): a %top block padded byte by byte over one growth step (thorough: four),
    # under a clean and two dirty heaps (what lies behind a buffer that is exactly full must not reach the output)
    # (the first growth steps behave alike only from the second step on: the sweep covers every length between two of them)
    for pad in (range(520, 1040) if q else range(0, 2100)):
        text = b"%top{\n/* " + b"p" * pad + b" */\n%}\n%option noyywrap\n%%\na ;\n%%\n"
        for en, env, f, cwd in ENVS[:3]:
            jobs.append(dict(name="top-pad-%d" % pad, text=text, args=[], env=env, en=en, fd=f, cwd=cwd, want=("scanner", "header"), stdout_scanner=False))
    import concurrent.futures as cf
    def one(j):
        o, wd = G.run_flex(j["fd"], j["text"], j["args"], want=j["want"], env=j["env"], cwd=j["cwd"], stdout_scanner=j["stdout_scanner"],
                           compile_check=False, timeout=120, lname="in.l")
        o.update(kind="determinism", name=j["name"], group=j["name"] + " " + " ".join(j["args"]) + " " + "+".join(j["want"]), env=j["en"], args=" ".join(j["args"]), faults={})
        return o
    with cf.ThreadPoolExecutor(units.NCPU) as ex:
        obs = list(ex.map(one, jobs))
    for j in jobs: run.note_case(dict(n=j["name"], a=j["args"], e=j["en"]))
    run.sample(dict(kind="observation", group=obs[0]["group"], env=obs[0]["env"], digests=[x["digest"] for x in obs[0]["outs"]]))

    def describe(o, inv):
        return "flex %s on %s: outputs under environment '%s' differ from those of another environment of the same group (rc=%s, digests %s)" % (
            o["args"], o["name"], o["env"], o["rc"], [(x["kind"], x["digest"]) for x in o["outs"] if x["requested"]])
    for o in obs: o["files"] = []
    _obs_check(run, obs, "MC_Proc18.cfg", "deterministic", describe)
    # bootstrap: the flex built from scan.l regenerates the scanner it was built from
    import subprocess, filecmp
    p = subprocess.run([os.path.join(fd, "flex"), "-o", "scan.c", "-t", "scan.l"], cwd=fd, stdout=subprocess.PIPE, stderr=subprocess.PIPE)
    run.note_case("bootstrap")
    if p.returncode != 0 or p.stdout != open(os.path.join(fd, "stage1scan.c"), "rb").read():
        run.violation("bootstrap", "regenerating flex's own scanner with the flex built from it does not reproduce it (rc=%d)" % p.returncode, {}, [])
    run.unit("bootstrap", identical=(p.returncode == 0))
    run.assumptions += ["environments are a finite list (allocator perturbation, arena count, environment size, cwd, sanitizer build, -t versus -o)"]


@check("C20")
def c20(run):
    from . import usercode as U, tlc as T
    import concurrent.futures as cf
    fd = build.build_flex()
    rng = random.Random(run.seed)
    q = run.tier == "quick"
    scn = os.path.join(run.work, "scn.json")
    r = T.run("FlexUserCode", cfg="MC_UserCodeGen.cfg", env={"GEN": "1", "SCN": scn, "OBS": "/dev/null"}, workers=1, timeout=120)
    if not r.ok or not os.path.exists(scn):
        run.error("FlexUserCode scenario export failed: %s" % (r.error or r.out[-400:])); return
    voc = json.load(open(scn))
    toks = voc["tokens"]
    # one specification holds the text in every region kind: singles exhaustively, pairs exhaustively (thorough) or sampled
    texts = list(toks) + [a + " " + b for a in toks for b in toks]
    if q:
        pairs = texts[len(toks):]; rng.shuffle(pairs)
        # quick tier: all singles, every (lexical-state-changing token, m4 quote) pair, plus a seeded sample of the rest
        core = [a + " " + b for a in ("'", "\\", "`'", "/*", "//", "*/", "#", "{}") for b in ("[[", "]]", "]]]", "[[[", "$1", "m4_dnl")]
        texts = list(toks) + core + pairs[:120]
    jobs = [(t, False, ()) for t in texts] + [(t, True, ()) for t in toks[:8]] + [(t, False, ("-Cf",)) for t in toks[:6]]
    jobs = [j + (False,) for j in jobs] + [(t, False, (), True) for t in toks[:10]]      # (the last ones: specification given as two input files)
    jobs = [j + (False,) for j in jobs] + [(t, n, (), False, True) for t in list(toks) + (core if q else []) for n in ((False, True) if t in toks[:4] else (False,))]   # with a header file
    with cf.ThreadPoolExecutor(units.NCPU) as ex:
        res = list(ex.map(lambda j: U.observe(fd, j[0], noline=j[1], cfgargs=j[2], split=j[3], header=j[4]), jobs))
    obs = []; wds = []
    for o, wd in res:
        obs += o; wds.append(wd)
    for o in obs: run.note_case(dict(t=o["text"], r=o["region"], n=o["noline"]))
    run.sample(dict(kind="scenario", text=obs[0]["text"], region=obs[0]["region"], source_line=obs[0]["srcline"], line_seen_by_compiler=obs[0]["seenline"],
                    spec_excerpt=open(obs[0]["files"][0], encoding="latin-1").read().splitlines()[:6]))
    path = os.path.join(run.work, "uc.obs.ndjson")
    remaining = list(obs); rounds = 0
    while remaining and rounds < 10:
        rounds += 1
        with open(path, "w") as f:
            for o in remaining: f.write(json.dumps({k: v for k, v in o.items() if k not in ("text", "note", "files")}) + "\n")
        r = T.run("FlexUserCode", cfg="MC_UserCode.cfg", env={"GEN": "0", "OBS": path, "SCN": "/dev/null"}, workers=1, timeout=600)
        run.add_tlc(r)
        if r.ok: break
        if not r.violated:
            run.error("FlexUserCode failed: %s" % (r.error or "timeout")[:500]); break
        i = T.ints(r.last_state.get("i", "1"))[0] - 1
        o = remaining[i]
        run.violation("usercode:" + r.violated, "user code %r placed in region '%s' (%s): %s fails - flex rc=%s cc rc=%s, compiler saw %r at line %s (source line %s); %s"
                      % (o["text"], o["region"], "noline" if o["noline"] else "with #line", r.violated, o["flexrc"], o["ccrc"],
                         "".join(chr(c) for c in o["observed"] if c >= 0), o["seenline"], o["srcline"], o["note"][:200].replace("\n", " | ")),
                      dict(text=o["text"], region=o["region"]), o["files"])
        remaining = [x for x in remaining if x["text"] != o["text"]]
    for wd in wds: shutil.rmtree(wd, ignore_errors=True)

    # open finding: the arguments of yyless(...) in an action are copied outside the action's own m4 quotes (flex closes them
    # around the call), where a "]]" of ordinary C - yyless(idx[k[0]]) - is taken for a quote delimiter of the enclosing level
    def yyless_args(sub):
        import subprocess, tempfile
        wd = tempfile.mkdtemp(prefix="yl.", dir=sub.work)
        lp = os.path.join(wd, "y.l"); cp = os.path.join(wd, "y.c")
        open(lp, "w").write("%option noyywrap\n%{\n#include <stdio.h>\nstatic int k[2] = {0, 1}, idx[2] = {1, 1};\n%}\n%%\n"
                            "abc   { yyless(idx[k[0]]); printf(\"less %d\\n\", yyleng); }\n.|\\n  { printf(\"c\\n\"); }\n%%\nint main(void) { yylex(); return 0; }\n")
        p = subprocess.run([os.path.join(fd, "flex"), "-o", cp, lp], stdout=subprocess.PIPE, stderr=subprocess.PIPE, text=True, timeout=60)
        sub.note_case(dict(k="yyless-args"))
        if p.returncode != 0: return        # (a refusal with a diagnostic would be honest)
        q_ = subprocess.run(["gcc", "-w", "-o", os.path.join(wd, "y"), cp], stdout=subprocess.PIPE, stderr=subprocess.STDOUT, text=True)
        if q_.returncode != 0:
            sub.violation("usercode:Verbatim", "action text 'yyless(idx[k[0]]);' does not reach the compiler as written: flex exits 0, the scanner does not compile (%s)"
                          % q_.stdout[:160].replace("\n", " | "), dict(text="yyless(idx[k[0]])"), [lp])
            return
        r = subprocess.run([os.path.join(wd, "y")], input=b"abc", stdout=subprocess.PIPE, timeout=20)
        if not r.stdout.startswith(b"less 1"):
            sub.violation("usercode:Verbatim", "action 'yyless(idx[k[0]])' compiled but behaves differently: %r" % r.stdout[:60], dict(text="yyless(idx[k[0]])"), [lp])
    run.probe("yyless-arg-quotes", yyless_args)
    run.unit("usercode", specifications=len(jobs), observations=len(obs), vocabulary=len(toks), scenario_space=voc["scenarios"])
    run.assumptions += ["hostile text is placed inside C string literals and comments of each region (plus a[a[0]]-style code), so that any byte flex or m4 changes is visible to the running program",
                        "token sequences of length <= 2 over the FlexUserCode vocabulary (pairs sampled in the quick tier, exhaustive in the thorough tier)"]


@check("C15")
def c15(run):
    from . import tlc as T, scanner
    import concurrent.futures as cf, subprocess
    fd = build.build_flex()
    rng = random.Random(run.seed)
    q = run.tier == "quick"
    srcs = [s for s in fam(run, profiles=("lit", "sc", "trail", "nul", "ccl"), core=1, rnd=8 if q else 40)][:10 if q else 30]
    tcfgs = [{"tbl": t} for t in ("", "-Cf", "-CF", "-Cfe", "-C", "-Ca")] + [{"tbl": "", "reject": True}]
    pairs = []
    cases_in = units.product_unit(run, fd, srcs, tcfgs, tag="incode", san=True)
    cases_tf = units.product_unit(run, fd, srcs, [dict(c, tablesfile=True) for c in tcfgs], tag="tfile", san=True)
    for a, b in zip(cases_in, cases_tf):
        if a.status == "ok" and b.status == "ok" and b.gen and b.gen.get("tables") and os.path.exists(b.gen["tables"]):
            b.T = a.T; b.states = a.states
            pairs.append((a, b))
    # (1) behaviour after yytables_fload == behaviour with in-code tables (same specification, equal executions)
    units.trace_unit(run, [x for p in pairs for x in p], rng, per_case=10 if q else 20, tag="loaded", full_cover=30 if q else 100)

    # (2) layout + content of the file, (3) the loader on every truncation / wrong magic / concatenation order
    def loader(exe, path):
        p = subprocess.run([exe, "tload", path], stdout=subprocess.PIPE, stderr=subprocess.PIPE, timeout=30,
                           env=dict(os.environ, ASAN_OPTIONS="detect_leaks=1:exitcode=99"))
        out = p.stdout.decode().strip()
        crash = p.returncode != 0 or not out.lstrip("-").isdigit()
        return (int(out) if not crash else -1), crash, p.stderr.decode(errors="replace")[:300]
    wd = os.path.join(run.work, "loader"); os.makedirs(wd, exist_ok=True)
    tlc_cases = []; jobs = []
    sel = [p for p in pairs if p[1].cfg.get("flavour", "nr") == "nr"]
    for n, (a, b) in enumerate(sel):
        data = open(b.gen["tables"], "rb").read()
        other = open(sel[(n + 1) % len(sel)][1].gen["tables"], "rb").read()
        variants = [("self", data, "yytables", True)]
        if n < (4 if q else 20):
            # a second set with another name before / after ours: found by name in any order
            renamed = data.replace(b"yytables\0", b"zztables\0") if len(b"yytables") == len(b"zztables") else data
            variants += [("other-first", renamed + data, "yytables", False), ("other-last", data + renamed, "yytables", False),
                         ("only-other", renamed, "yytables", False)]
        for vn, bytes_, name, compare in variants:
            fpath = os.path.join(wd, "%s-%s.tables" % (b.id, vn)); open(fpath, "wb").write(bytes_)
            ks = list(range(0, len(bytes_) + 1))
            cap_ = 400 if q else 3000        # (every header byte and the tail always; the interior sampled)
            if len(ks) > cap_: ks = sorted(set(rng.sample(ks, cap_ - 20) + list(range(0, 40)) + [len(bytes_) - i for i in range(0, 20)]))
            case = dict(bytes=list(bytes_), name=[ord(ch) for ch in name], T=a.T, compare=compare, obs=[], cid=b.id, variant=vn)
            tlc_cases.append(case)
            for k in ks:
                jobs.append((case, b, fpath, bytes_, k, "trunc"))
            bad = bytearray(bytes_); bad[0] ^= 0xFF
            jobs.append((case, b, fpath, bytes(bad), len(bad), "magic"))
    def one(j):
        case, b, fpath, bytes_, k, kind = j
        pth = "%s.%s%d" % (fpath, kind, k)
        open(pth, "wb").write(bytes_[:k])
        rc, crash, err = loader(b.gen["exe"], pth)
        os.unlink(pth)
        return (case, dict(k=k, rc=rc, crash=crash, kind=kind, err=err), bytes_[:k] if kind == "magic" else None)
    with cf.ThreadPoolExecutor(units.NCPU) as ex:
        res = list(ex.map(one, jobs))
    for case, o, alt in res:
        if o["kind"] == "magic":
            # a file whose first set has a wrong magic number: separate case (its own byte string)
            c2 = dict(case, bytes=list(alt), obs=[o], compare=False, variant=case["variant"] + "-badmagic"); tlc_cases.append(c2)
            c2["skiplayout"] = True
        else:
            case["obs"].append(o)
        run.note_case(dict(c=case["cid"], v=case["variant"], k=o["k"], kind=o["kind"]))
    path = os.path.join(run.work, "tf.cases.ndjson")
    remaining = [c for c in tlc_cases]
    rounds = 0
    while remaining and rounds < 8:
        rounds += 1
        with open(path, "w") as f:
            for c in remaining:
                f.write(json.dumps(dict(bytes=c["bytes"], name=c["name"], T=c["T"], compare=c["compare"] and not c.get("skiplayout"),
                                        layout=(not c.get("skiplayout")) and not c["variant"].startswith("only-other"),
                                        obs=[dict(k=o["k"], rc=o["rc"], crash=o["crash"]) for o in c["obs"]])) + "\n")
        r = T.run("FlexTablesFile", cfg="MC_TablesFile.cfg", env={"CASES": path}, workers=1, timeout=1200)
        run.add_tlc(r)
        if r.ok: break
        if not r.violated:
            run.error("FlexTablesFile failed: %s" % (r.error or "timeout")[:700]); break
        ci = T.ints(r.last_state.get("c", "1"))[0] - 1; j = T.ints(r.last_state.get("j", "0"))[0]
        c = remaining[ci]
        o = c["obs"][j - 1] if j > 0 else {}
        if c.get("skiplayout") and r.violated == "LayoutOK":
            c["obs_only"] = True
        run.violation("tables:" + r.violated, "tables file of %s (%s, variant %s): %s fails%s"
                      % (c["cid"], " ".join(scanner.flex_args(next(b.cfg for a, b in pairs if b.id == c["cid"]))), c["variant"], r.violated,
                         (" for the first %d of %d bytes: loader returned %s crash=%s %s" % (o["k"], len(c["bytes"]), o["rc"], o["crash"], o.get("err", "")[:150])) if o else ""),
                      dict(variant=c["variant"], obs=o), [next(b.gen["l"] for a, b in pairs if b.id == c["cid"])])
        remaining = remaining[:ci] + remaining[ci + 1:]
    run.unit("tables-file", files=len(tlc_cases), loader_runs=len(jobs))
    # (4) --tables-verify succeeds on the genuine file and fails when a serialized value is altered
    vcases = units.product_unit(run, fd, srcs[:3 if q else 10], [{"tbl": "", "tablesfile": True, "tablesverify": True}, {"tbl": "-Cf", "tablesfile": True, "tablesverify": True}], tag="verify", san=True)
    nver = 0
    for c in vcases:
        if c.status != "ok" or not c.gen.get("tables"): continue
        data = bytearray(open(c.gen["tables"], "rb").read())
        rc, crash, err = loader(c.gen["exe"], c.gen["tables"])
        if rc != 0 or crash:
            run.violation("verify:genuine", "--tables-verify scanner of %s rejects its own tables file (rc=%s crash=%s %s)" % (c.src.get("name"), rc, crash, err[:200]), {}, [c.gen["l"]])
        for _ in range(24):
            k = rng.randrange(16, len(data) - 8)
            if not _in_table_data(bytes(data), k): continue       # only serialized *values* are altered (not lengths, ids, padding)
            alt = bytearray(data); alt[k] = (alt[k] + 1 + rng.randrange(200)) % 256
            if alt == data: continue
            pth = c.gen["tables"] + ".alt"; open(pth, "wb").write(alt)
            rc2, crash2, err2 = loader(c.gen["exe"], pth); nver += 1
            # padding bytes carry no value: only flag an accepted alteration when it lies inside table data that TLC-side parsing sees
            if rc2 == 0 and not crash2 and _in_table_data(bytes(data), k):
                run.violation("verify:altered", "--tables-verify scanner of %s accepts a tables file whose byte %d was altered" % (c.src.get("name"), k), {}, [c.gen["l"]])
            if crash2:
                run.violation("verify:crash", "--tables-verify scanner of %s crashes on an altered tables file: %s" % (c.src.get("name"), err2[:200]), {}, [c.gen["l"]])
    run.unit("tables-verify", alterations=nver)
    run.assumptions += ["release of loaded tables by yytables_destroy is observed by LeakSanitizer on every loader run, not by the FlexHeap ledger"]


def _in_table_data(b, k):
    """is byte offset k inside the data area of some table of the first set (not header, not padding)?"""
    import struct
    if len(b) < 16: return False
    magic, hs, ss = struct.unpack(">III", b[:12])
    p = hs
    while p + 12 <= min(ss, len(b)):
        tid, fl, hi, lo = struct.unpack(">HHII", b[p:p + 12])
        w = 1 if fl & 1 else 2 if fl & 2 else 4
        n = (lo if hi == 0 else hi * lo) * (2 if fl & 0x10 else 1)
        if p + 12 <= k < p + 12 + n * w: return True
        p = (p + 12 + n * w + 7) // 8 * 8
    return False


@check("C12")
def c12(run):
    from . import tlc as T, scanner, traces
    import concurrent.futures as cf, subprocess
    fd = build.build_flex()
    rng = random.Random(run.seed)
    q = run.tier == "quick"
    # schedules: every interleaving of N instances x K calls, enumerated by TLC (FlexInstances)
    sch = os.path.join(run.work, "schedules.json")
    r = T.run("FlexInstances", cfg="MC_Instances.cfg", env={"SCHEDULES": sch}, workers=1, timeout=120)
    run.add_tlc(r)
    if not r.ok or not os.path.exists(sch):
        run.error("FlexInstances failed: %s" % (r.error or r.out[-300:])); return
    schedules = json.load(open(sch))
    srcs = fam(run, profiles=("lit", "ops", "sc", "trail", "mix"), core=1, rnd=6 if q else 30, hand=True)[:10 if q else 50]
    cases = units.product_unit(run, fd, srcs, [{"flavour": "r", "reject": True, "yymore": True, "instances": True, "stack": False},
                                               {"flavour": "r", "reject": True, "yymore": True, "instances": True, "stack": False, "tablesfile": True},
                                               {"flavour": "r", "reject": True, "yymore": True, "instances": True, "stack": False, "heap": True},
                                               {"flavour": "r", "reject": True, "yymore": False, "instances": True, "stack": False},
                                               {"flavour": "c99", "reject": True, "yymore": True, "instances": True, "stack": False},
                                               {"flavour": "c99", "reject": True, "yymore": False, "instances": True, "stack": False, "heap": True},
                                               # C++ lexer objects (one VLexer per instance), with and without REJECT / yymore
                                               {"flavour": "cxx", "reject": True, "yymore": True, "instances": True, "stack": False},
                                               {"flavour": "cxx", "reject": False, "yymore": False, "instances": True, "stack": False},
                                               {"flavour": "cxx", "reject": True, "yymore": True, "instances": True, "stack": False, "array": False, "interactive": True}],
                               tag="product", san=True)
    ok = [c for c in cases if c.status == "ok"]
    wd = os.path.join(run.work, "inst"); os.makedirs(wd, exist_ok=True)
    casefile = os.path.join(wd, "cases.ndjson")
    with open(casefile, "w") as f:
        for c in ok: f.write(json.dumps({"id": c.id, "src": c.src}) + "\n")
    # a ThreadSanitizer build of each scanner for the threaded runs
    def tsan(c):
        exe = c.gen["exe"] + ".tsan"
        q_ = subprocess.run(["g++" if c.cfg.get("flavour") == "cxx" else "gcc", "-O1", "-g", "-w", "-D_GNU_SOURCE", "-fsanitize=thread"] + ["-D" + d for d in c.gen.get("defs", [])] + (["-DVF_TABLESFILE"] if c.cfg.get("tablesfile") else []) +
                            ["-I", fd, "-o", exe, c.gen["c"], "-lpthread"],
                            stdout=subprocess.PIPE, stderr=subprocess.STDOUT, text=True)
        c.tsan = exe if q_.returncode == 0 else None
    with cf.ThreadPoolExecutor(units.NCPU) as ex: list(ex.map(tsan, ok))

    def run_mode(c, ci, mode, schedule, inputs, tagname, exe=None, env=None):
        args = [exe or c.gen["exe"], mode, ",".join(map(str, schedule)) or "0"]
        files = []
        for i, (inp, step) in enumerate(inputs):
            tf = os.path.join(wd, "%s-%s-i%d.ndjson" % (c.id, tagname, i)); files.append(tf)
            rj = json.dumps(dict(traces.reset_fields(c, ci + 1), cid=c.id))[1:-1]
            args += [tf, rj, inp.hex(), str(step)]
        p = subprocess.run(args, stdin=subprocess.DEVNULL, stdout=subprocess.DEVNULL, stderr=subprocess.PIPE, timeout=120,
                           env=dict(os.environ, **traces.ENV, TSAN_OPTIONS="exitcode=66 halt_on_error=0", **({"VF_TABLES": c.gen["tables"]} if c.gen.get("tables") else {}), **(env or {})))
        return p.returncode, p.stderr.decode(errors="replace"), files

    tov = []; ncmp = 0
    for ci, c in enumerate(ok):
        c.alphabet = traces.alphabet_of(c.src)
        inputs = [(bytes(rng.choice(c.alphabet) for _ in range(rng.randint(4, 14))), rng.choice([1, 2, 0])) for _ in range(3)]
        rc, err, solo = run_mode(c, ci, "solo", [], inputs, "solo")
        if rc != 0:
            run.violation("inst:crash", "instances of %s run one after the other: exit %d %s" % (c.src.get("name"), rc, err[:300]), dict(cfg=c.cfg), [c.gen["l"]]); continue
        ref = [open(f).read() for f in solo]
        for f in solo: tov += [(c, e) for e in traces.split_executions(f)]
        runs = [("sched", s) for s in (rng.sample(schedules, 12) if q else schedules)] + [("nest", []), ("threads", []), ("threads", [])]
        for k, (mode, s) in enumerate(runs):
            exe = c.tsan if (mode == "threads" and getattr(c, "tsan", None)) else None
            rc, err, files = run_mode(c, ci, mode, s, inputs, "%s%d" % (mode, k), exe=exe)
            ncmp += 1
            run.note_case(dict(c=c.src.get("name"), m=mode, s=s))
            if rc != 0 or "ThreadSanitizer" in err:
                run.violation("inst:race" if "ThreadSanitizer" in err else "inst:crash",
                              "instances of %s in mode %s %s: exit %d: %s" % (c.src.get("name"), mode, s, rc, err[:400]), dict(cfg=c.cfg, mode=mode), [c.gen["l"]])
                continue
            for i, f in enumerate(files):
                got = open(f).read()
                if got != ref[i]:
                    a_, b_ = got.splitlines(), ref[i].splitlines()
                    kk = next((j for j in range(min(len(a_), len(b_))) if a_[j] != b_[j]), min(len(a_), len(b_)))
                    run.violation("inst:differs", "instance %d of %s behaves differently in mode %s %s than alone: event %d is %s, alone %s"
                                  % (i, c.src.get("name"), mode, s, kk, (a_[kk] if kk < len(a_) else "<end>")[:200], (b_[kk] if kk < len(b_) else "<end>")[:200]),
                                  dict(cfg=c.cfg, mode=mode, schedule=s), [c.gen["l"], f, solo[i]])
                    break
    # the solo runs themselves must be behaviours of FlexScanner
    nacc = units._validate_list(run, tov, ok, casefile, wd, "solo")
    run.cov["traces_validated_against_impl"] += nacc
    run.unit("instances", scanners=len(ok), schedules=len(schedules), runs_compared_with_solo=ncmp, solo_executions_validated=nacc)
    # prefixes: scanners generated with different prefixes link into one program without clashes
    _prefix_unit(run, fd, srcs[:3])
    run.sample(dict(kind="schedule", interleaving=schedules[len(schedules) // 2], instances=3, calls_each=2))
    run.assumptions += ["'no state is raced on' is observed by ThreadSanitizer attached to the threaded runs (DESIGN.md section 9), not decided by TLC",
                        "reentrant C, c99 and C++ lexer objects (one VLexer per instance) run in the same instance harness"]


def _prefix_unit(run, fd, srcs):
    """three scanners (non-reentrant aa, non-reentrant bb, reentrant cc) from different rule sets in one program"""
    import subprocess
    from . import scanner
    wd = os.path.join(run.work, "prefix"); os.makedirs(wd, exist_ok=True)
    objs = []; expect = {}
    # (dd, ee: bison-bridge scanners with locations - their accessor functions are prefixed like everything else)
    for pfx, src, extra in (("aa", srcs[0], ""), ("bb", srcs[1 % len(srcs)], ""), ("cc", srcs[2 % len(srcs)], " reentrant"),
                            ("dd", srcs[0], " reentrant bison-bridge bison-locations"), ("ee", srcs[1 % len(srcs)], " reentrant bison-bridge bison-locations")):
        s = json.loads(json.dumps(src))
        for k, r in enumerate(s["rules"]): r["action"] = "{ %s_hits[%d]++; }" % (pfx, k)
        names = ["%option noyywrap prefix=\"" + pfx + "\"" + extra] + [("%x " if c["excl"] else "%s ") + c["name"] for c in s["scs"][1:]]
        text = "\n".join(names + ["%{", "int %s_hits[64];" % pfx] + (["typedef int YYSTYPE; typedef struct { int first_line; } YYLTYPE;"] if "bison" in extra else []) + ["%}"] + scanner.render_defs(s, s.get("posix", False)) + ["%%"] +
                         [l.replace("{ VEOF(", "{ return 0; /* ").replace(") }", " */ }") if "VEOF(" in l else l for l in scanner.render_rules(s, s.get("posix", False))] + ["%%", ""])
        lp = os.path.join(wd, pfx + ".l"); open(lp, "w", encoding="latin-1").write(text)
        p = subprocess.run([os.path.join(fd, "flex"), "-o", os.path.join(wd, pfx + ".c"), lp], stdout=subprocess.PIPE, stderr=subprocess.PIPE, text=True)
        q = subprocess.run(["gcc", "-w", "-c", "-o", os.path.join(wd, pfx + ".o"), os.path.join(wd, pfx + ".c")], stdout=subprocess.PIPE, stderr=subprocess.STDOUT, text=True)
        if p.returncode or q.returncode:
            run.violation("prefix:build", "scanner with prefix %s does not build: %s %s" % (pfx, p.stderr[:200], q.stdout[:300]), {}, [lp]); return
        objs.append(os.path.join(wd, pfx + ".o"))
    nm = subprocess.run(["nm", "-g", "--defined-only"] + objs, stdout=subprocess.PIPE, text=True).stdout
    syms = {}
    for line in nm.splitlines():
        parts = line.split()
        if len(parts) == 3: syms.setdefault(parts[2], 0); syms[parts[2]] += 1
    dup = sorted(s for s, n in syms.items() if n > 1)
    unpref = sorted(s for s in syms if s.startswith("yy"))
    run.note_case("prefix-link"); run.note_case("prefix-symbols")
    if dup or unpref:
        run.violation("prefix:clash", "scanners generated with prefixes aa/bb/cc/dd/ee define clashing or unprefixed external symbols: duplicates %s, unprefixed %s" % (dup[:8], unpref[:8]), {}, [])
    main = os.path.join(wd, "main.c")
    open(main, "w").write('#include <stdio.h>\nextern int aalex(void); extern int bblex(void); typedef void *yyscan_t; extern int cclex_init(yyscan_t *); extern int cclex(yyscan_t); extern int cclex_destroy(yyscan_t);\n'
                          'extern void *aa_scan_string(const char *); extern void *bb_scan_string(const char *); extern void *cc_scan_string(const char *, yyscan_t);\n'
                          'extern int aa_hits[64], bb_hits[64], cc_hits[64];\n'
                          'int main(int argc, char **argv) { yyscan_t s; int i; cclex_init(&s); aa_scan_string(argv[1]); bb_scan_string(argv[1]); cc_scan_string(argv[1], s);\n'
                          ' aalex(); bblex(); cclex(s); cclex_destroy(s);\n for (i = 0; i < 12; i++) printf("%d %d %d\\n", aa_hits[i], bb_hits[i], cc_hits[i]); return 0; }\n')
    l = subprocess.run(["gcc", "-w", "-o", os.path.join(wd, "all"), main] + objs, stdout=subprocess.PIPE, stderr=subprocess.STDOUT, text=True)
    if l.returncode:
        run.violation("prefix:link", "three scanners with different prefixes do not link into one program: %s" % l.stdout[:400], {}, []); return
    run.unit("prefixes", objects=len(objs), external_symbols=len(syms))


@check("C19")
def c19(run):
    from . import options as OP, tlc as T
    import concurrent.futures as cf
    fd = build.build_flex()
    jobs = []
    for opt, cli, fileopt, pred, kw in OP.probes(fd):
        if cli is not None: jobs.append((opt, "cli", cli, "", pred, kw))
        if fileopt is not None: jobs.append((opt, "file", [], fileopt, pred, kw))
    for opt, text, pred, kw in OP.NEG:
        jobs.append((opt, "neg", [], text, pred, kw))

    def one(j):
        opt, sp, cli, fileopt, pred, kw = j
        b = OP.B(fd, fileopt=fileopt, cli=cli, **kw)
        try:
            ok, detail = pred(b)
        except Exception as e:
            ok, detail = False, "probe failed: %r" % e
        o = dict(opt=opt, spelling=sp, holds=bool(ok), same=True, detail=str(detail)[:400], flex_stderr=b.ferr[:300], cc=b.cout[-300:], dig=b.digest(),
                 cmd="flex %s  %%option %s" % (" ".join(cli), fileopt), files=[os.path.join(b.wd, "p.l")], wd=b.wd)
        return o
    with cf.ThreadPoolExecutor(units.NCPU) as ex:
        obs = list(ex.map(one, jobs))
    # command line == %option: identical scanners
    bycli = {o["opt"]: o for o in obs if o["spelling"] == "cli"}
    for o in obs:
        if o["spelling"] == "file" and o["opt"] in bycli:
            o["same"] = (o["dig"] == bycli[o["opt"]]["dig"]) or o["opt"] in ("outfile", "headerfile", "tablesfile")   # (file names differ by construction)
    # contradictory / overridden combinations
    for name, cli, fileopt, expect, rx in OP.PAIRS:
        b = OP.B(fd, fileopt=fileopt, cli=cli, run=False, link=False, cxx=("-+" in cli))
        import re as _re
        if expect == "refuse": ok = b.frc != 0 and bool(_re.search(rx, b.ferr))
        else: ok = b.frc == 0 and bool(_re.search(rx, b.ferr)) and "warning" in b.ferr
        obs.append(dict(opt=name, spelling="pair", holds=ok, same=True, detail="rc=%d %s" % (b.frc, b.ferr[:200]), flex_stderr=b.ferr[:300], cc="", dig="",
                        cmd="flex %s  %%option %s" % (" ".join(cli), fileopt), files=[os.path.join(b.wd, "p.l")], wd=b.wd))
    for o in obs: run.note_case(dict(o=o["opt"], s=o["spelling"]))
    run.sample(dict(kind="probe", option=obs[0]["opt"], spelling=obs[0]["spelling"], command=obs[0]["cmd"], holds=obs[0]["holds"]))
    path = os.path.join(run.work, "cli.obs.ndjson")
    remaining = list(obs); rounds = 0
    while remaining and rounds < 40:
        rounds += 1
        with open(path, "w") as f:
            for o in remaining: f.write(json.dumps({k: o[k] for k in ("opt", "spelling", "holds", "same")}) + "\n")
        r = T.run("FlexCli", cfg="MC_Cli.cfg", env={"OBS": path}, workers=1, timeout=300)
        run.add_tlc(r)
        if r.ok: break
        if not r.violated:
            run.error("FlexCli failed: %s" % (r.error or "timeout")[:500]); break
        if r.violated == "Covered":
            run.error("option vocabulary of FlexCli not completely probed"); break
        i = T.ints(r.last_state.get("i", "1"))[0] - 1
        o = remaining[i]
        run.violation("option:%s:%s:%s" % (o["opt"], o["spelling"], r.violated),
                      "option %s (%s): %s - %s; flex: %s; cc: %s" % (o["opt"], o["cmd"], "documented effect not observed" if r.violated == "Effect" else "the %option spelling generates a different scanner than the command-line spelling",
                                                                o["detail"][:200], o["flex_stderr"][:150].replace("\n", " | "), o["cc"][:200].replace("\n", " | ")),
                      dict(opt=o["opt"], spelling=o["spelling"]), o["files"])
        # the observation stays in the table (coverage), corrected, so that the others are checked too
        o["holds"] = True; o["same"] = True
    for o in obs: shutil.rmtree(o["wd"], ignore_errors=True)
    run.unit("options", probes=len(obs), tlc_rounds=rounds)
    run.assumptions += ["each option's documented effect is encoded as one probe predicate (lib/vf/options.py); table/mode options are covered by C02"]

"""Generator-side observations: run flex itself (sanitizer build) on inputs,
option sets, environments and write faults, and record what it did."""
import hashlib, json, os, random, re, resource, signal, struct, subprocess, tempfile, shutil

KINDS = ("scanner", "header", "tables", "backup")


def digest(path):
    try:
        b = open(path, "rb").read()
    except OSError:
        return ""
    b = re.sub(rb'#line (\d+) "[^"\n]*"', rb'#line \1 "F"', b)
    return hashlib.sha1(b).hexdigest()[:16]


def tables_wellformed(path):
    try:
        b = open(path, "rb").read()
    except OSError:
        return False
    pos = 0
    if len(b) < 24: return False
    while pos < len(b):
        if len(b) - pos < 16: return False
        magic, hsize, ssize, flags = struct.unpack(">IIIH", b[pos:pos + 14])
        if magic != 0xF13C57B1 or hsize % 8 or ssize % 8 or ssize < hsize or pos + ssize > len(b): return False
        pos += ssize
    return True


def run_flex(flexdir, ltext, args, want=("scanner",), faults=None, env=None, cwd=None, timeout=40, stdout_scanner=False,
             compile_check=True, cxx=False, keep=None, lname="in.l"):
    """returns (observation dict, workdir).  ltext: bytes.  faults: {kind: 'devfull'|'nodir'|'rlimit'}"""
    faults = faults or {}
    wd = tempfile.mkdtemp(prefix="gs.", dir=os.environ.get("VERIF_SCRATCH", "/tmp"))
    lpath = os.path.join(wd, lname)
    open(lpath, "wb").write(ltext)
    paths = {"scanner": os.path.join(wd, "scan.cc" if cxx else "scan.c"), "header": os.path.join(wd, "scan.h"),
             "tables": os.path.join(wd, "scan.tables"), "backup": os.path.join(wd, "scan.backup")}
    for k, m in faults.items():
        if m == "devfull": paths[k] = "/dev/full"
        elif m == "nodir": paths[k] = os.path.join(wd, "no", "such", "dir", "f")
    cmd = [os.path.join(flexdir, "flex")] + list(args)
    if "scanner" in want:
        # "named": the idiom of flex's own Makefile, '-o NAME -t >file' (output to stdout, NAME in the #line directives)
        cmd += ["-o", paths["scanner"], "-t"] if stdout_scanner == "named" else ["-t"] if stdout_scanner else ["-o", paths["scanner"]]
    if "header" in want: cmd += ["--header-file=" + paths["header"]]
    if "tables" in want: cmd += ["--tables-file=" + paths["tables"]]
    if "backup" in want: cmd += ["-b", "--backup-file=" + paths["backup"]]
    cmd.append(lpath)
    e = dict(os.environ, LC_ALL="C", ASAN_OPTIONS="detect_leaks=0:abort_on_error=0:exitcode=97", UBSAN_OPTIONS="halt_on_error=1:exitcode=96")
    if env: e.update(env)
    lim = faults.get("scanner") in ("rlimit", "rlimitsig") or faults.get("header") == "rlimit"
    # "rlimitsig": the file size limit with SIGXFSZ at its default - the process that writes the scanner (a filter child of flex)
    # is terminated by the signal; "m4killed": m4 reads its input and is then killed before it has written anything
    limsig = faults.get("scanner") == "rlimitsig"
    if faults.get("scanner") == "m4killed":
        m4 = os.path.join(wd, "m4-killed.sh")
        open(m4, "w").write("#!/bin/sh\ncat >/dev/null\nkill -KILL $$\n"); os.chmod(m4, 0o755)
        e["M4"] = m4

    def pre():
        signal.signal(signal.SIGXFSZ, signal.SIG_DFL if limsig else signal.SIG_IGN)
        if lim: resource.setrlimit(resource.RLIMIT_FSIZE, (4096, 4096))
    so = open(paths["scanner"], "wb") if (stdout_scanner and "scanner" in want and paths["scanner"] != "/dev/full") else None
    if stdout_scanner and paths["scanner"] == "/dev/full": so = open("/dev/full", "wb")
    timed = False
    try:
        p = subprocess.run(cmd, cwd=cwd or wd, env=e, stdin=subprocess.DEVNULL, stdout=so or subprocess.PIPE, stderr=subprocess.PIPE,
                           timeout=timeout, preexec_fn=pre)
        rc = p.returncode; err = p.stderr.decode(errors="replace")
    except subprocess.TimeoutExpired as ex:
        timed = True; rc = -9; err = (ex.stderr or b"").decode(errors="replace")
    finally:
        if so: so.close()
    sig = -rc if rc < 0 and not timed else 0
    if limsig and sig == signal.SIGXFSZ: sig = 0; rc = 128 + int(signal.SIGXFSZ)
    asan = ("AddressSanitizer" in err) or ("runtime error:" in err) or rc in (96, 97)
    lines = [l for l in err.splitlines() if l.strip() and not l.startswith("==") and "Sanitizer" not in l]
    outs = []
    for k in KINDS:
        req = k in want
        pth = paths[k]
        ex = req and pth not in ("/dev/full",) and os.path.isfile(pth) and os.path.getsize(pth) > 0
        comp = bool(ex)
        if ex and rc == 0:
            if k == "scanner" and compile_check:
                q = subprocess.run(["g++" if cxx else "gcc", "-fsyntax-only", "-w", "-D_GNU_SOURCE", "-I", flexdir, "-I", wd, pth],
                                   stdout=subprocess.PIPE, stderr=subprocess.STDOUT, text=True)
                comp = q.returncode == 0
            elif k == "header" and compile_check:
                q = subprocess.run(["gcc", "-fsyntax-only", "-w", "-x", "c", pth], stdout=subprocess.PIPE, stderr=subprocess.STDOUT, text=True)
                comp = q.returncode == 0
            elif k == "tables":
                comp = tables_wellformed(pth)
        outs.append(dict(kind=k, requested=req, fault=k in faults, complete=comp, digest=digest(pth) if ex else ""))
    obs = dict(timeout=timed, sig=sig, rc=rc if rc >= 0 else 128 - rc, asan=asan, diag=len(lines), outs=outs,
               fileline=sum(1 for l in lines if re.match(r'^[^:\s][^:]*:\d+: ', l)), stderr=err[:600], cmd=" ".join(cmd[1:])[:300])
    if keep is None:
        shutil.rmtree(wd, ignore_errors=True); wd = None
    return obs, wd


# ------------------------------------------------------------------ inputs
def mutate(rng, text):
    """structural mutations of a valid specification (bytes -> bytes, description)"""
    lines = text.split(b"\n")
    k = rng.randrange(14)
    if k == 0 and len(lines) > 3:
        i = rng.randrange(len(lines)); del lines[i]; return b"\n".join(lines), "delete line %d" % i
    if k == 1:
        i = rng.randrange(len(lines)); lines.insert(i, lines[i]); return b"\n".join(lines), "duplicate line %d" % i
    if k == 2:
        n = rng.randrange(len(text)); return text[:n], "truncate at %d" % n
    if k == 3:
        i = rng.randrange(len(lines)); lines[i] = lines[i].replace(b"}", b"", 1); return b"\n".join(lines), "drop a brace in line %d" % i
    if k == 4:
        i = rng.randrange(len(lines)); lines[i] = lines[i] + b' "unterminated'; return b"\n".join(lines), "unterminated quote in line %d" % i
    if k == 5:
        i = rng.randrange(len(lines)); lines[i] = b"%option " + bytes(rng.choice(b"abcdefgh-= ") for _ in range(rng.randint(1, 30))); return b"\n".join(lines), "junk %option"
    if k == 6:
        i = rng.randrange(len(lines)); lines.insert(i, b"%%"); return b"\n".join(lines), "extra %% at line %d" % i
    if k == 7:
        name = b"N" * rng.choice([100, 2047, 2048, 2049, 5000]); return b"%s  [a-z]\n" % name + text.replace(b"%%\n", b"%%\n{" + name + b"}  ;\n", 1), "definition name of %d chars" % len(name)
    if k == 8:
        i = rng.randrange(len(lines)); lines.insert(i, b"x" * rng.choice([2047, 2048, 4096, 20000]) + b"  ;"); return b"\n".join(lines), "very long pattern line"
    if k == 9:
        i = rng.randrange(len(lines)); lines[i] = bytes(rng.randrange(256) for _ in range(rng.randint(1, 40))); return b"\n".join(lines), "random bytes in line %d" % i
    if k == 10:
        i = rng.randrange(len(lines)); lines.insert(i, b"<" + b"UNDECLARED" + b">a  ;"); return b"\n".join(lines), "undeclared start condition"
    if k == 11:
        i = rng.randrange(len(lines)); lines.insert(i, rng.choice([b"a{5,2}  ;", b"a{0}  ;", b"[z-a]  ;", b"(a  ;", b"a)  ;", b"[a  ;", b"a/b/c  ;", b"a$b  ;", b"{undef}  ;", b'"\\', b"<<EOF>>a ;", b"^^a  ;"]))
        return b"\n".join(lines), "bad pattern"
    if k == 12:
        i = rng.randrange(len(lines)); lines.insert(i, b"%{"); return b"\n".join(lines), "unclosed %{"
    i = rng.randrange(len(lines)); lines.insert(i, b"(" * rng.choice([50, 500, 5000]) + b"a" + b")" * rng.choice([50, 500, 5000]) + b"  ;")
    return b"\n".join(lines), "deeply nested parentheses"


def limit_specs():
    """specifications that exceed flex's internal limits (must be refused with a diagnostic)"""
    out = []
    hdr = b"%option noyywrap\n%%\n"
    for n in (8190, 8191, 8192, 8195, 8200, 9000):
        body = b"".join(b"k%dz  return %d;\n" % (i, i % 100) for i in range(n))
        out.append(("rules-%d" % n, hdr + body + b"%%\nint main(void){return 0;}\n", ["-Ca"] if False else []))
    out.append(("nfa-large", hdr + b"".join(b"%s  ;\n" % (b"a" * 400 + b"%d" % i) for i in range(100)) + b"%%\n", []))
    out.append(("rep-blowup", hdr + b"(a|b){1000}  ;\n%%\n", []))
    out.append(("rep-nested", hdr + b"((a{100}){100}){10}  ;\n%%\n", []))
    out.append(("many-sc", b"%option noyywrap\n" + b"".join(b"%%x S%d\n" % i for i in range(3000)) + b"%%\na ;\n%%\n", []))
    out.append(("long-name", b"%option noyywrap\n" + b"D" * 3000 + b" [a-z]\n%%\n{" + b"D" * 3000 + b"} ;\n%%\n", []))
    return out

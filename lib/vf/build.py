"""Build flex from /repo's *current working tree* into a scratch directory.

Mirrors src/Makefile.am: skeleton headers via mkskel.sh, parse.c via bison,
scan.c via the system lex (as automake's ylwrap does), stage1flex, then the
bootstrap step (stage1flex regenerates the scanner from scan.l) and the final
flex.  Nothing is written into /repo.  Results are cached by content hash of
src/ under $VERIF_SCRATCH (default /tmp/verif-scratch); the cache is only an
accelerator - it is rebuilt whenever missing.
"""
import hashlib, os, shutil, subprocess, sys, time

REPO = os.environ.get("VERIF_REPO", "/repo")
SCRATCH = os.environ.get("VERIF_SCRATCH", "/tmp/verif-scratch")

SRCS = "buf ccl dfa ecs filter gen main misc nfa options parse regex scanflags scanopt skeletons sym tables tables_shared tblcmp yylex".split()
COPY_EXT = (".c", ".h", ".l", ".y", ".skl", ".sh")
GENERATED = {"parse.c", "parse.h", "scan.c", "stage1scan.c", "stage2scan.c",
             "cpp-flex.h", "c99-flex.h", "go-flex.h"}


class BuildError(Exception):
    pass


def src_hash(repo=REPO):
    h = hashlib.sha256()
    d = os.path.join(repo, "src")
    for fn in sorted(os.listdir(d)):
        if fn in GENERATED and fn != "config.h":
            continue
        if fn.endswith(COPY_EXT):
            h.update(fn.encode())
            with open(os.path.join(d, fn), "rb") as f:
                h.update(f.read())
    return h.hexdigest()[:16]


def _run(cmd, cwd, log):
    p = subprocess.run(cmd, cwd=cwd, shell=isinstance(cmd, str), stdout=subprocess.PIPE,
                       stderr=subprocess.STDOUT, text=True, errors="replace")
    log.write("$ %s\n%s\n" % (cmd, p.stdout))
    if p.returncode != 0:
        raise BuildError("command failed (%d): %s\n%s" % (p.returncode, cmd, p.stdout[-4000:]))
    return p.stdout


def _prune(keep):
    try:
        ents = [os.path.join(SCRATCH, e) for e in os.listdir(SCRATCH) if e.startswith("flex-")]
    except FileNotFoundError:
        return
    ents.sort(key=lambda p: os.path.getmtime(p), reverse=True)
    for p in ents[keep:]:
        shutil.rmtree(p, ignore_errors=True)


def build_flex(variant="plain", repo=REPO, verbose=False):
    """Returns the directory holding `flex`, FlexLexer.h and stage1scan.c.
    variant: 'plain' (-O1) or 'asan' (-O1 -g -fsanitize=address,undefined)."""
    os.makedirs(SCRATCH, exist_ok=True)
    key = "flex-%s-%s" % (src_hash(repo), variant)
    out = os.path.join(SCRATCH, key)
    if os.path.exists(os.path.join(out, "OK")):
        os.utime(out, None)
        return out
    tmp = out + ".tmp%d" % os.getpid()
    shutil.rmtree(tmp, ignore_errors=True)
    os.makedirs(tmp)
    t0 = time.time()
    sdir = os.path.join(repo, "src")
    for fn in os.listdir(sdir):
        if fn.endswith(COPY_EXT) and (fn not in GENERATED):
            shutil.copy2(os.path.join(sdir, fn), os.path.join(tmp, fn))
    if not os.path.exists(os.path.join(tmp, "config.h")):
        raise BuildError("src/config.h missing: /repo is not configured")
    cflags = "-DHAVE_CONFIG_H -DLOCALEDIR='\"/usr/local/share/locale\"' -I. -O1 -w"
    if variant == "asan":
        cflags += " -g -fsanitize=address,undefined -fno-omit-frame-pointer"
    mk = ["CC=gcc", "CFLAGS=%s" % cflags,
          "OBJS=%s" % " ".join(s + ".o" for s in SRCS),
          "all: flex",
          "%-flex.h: %-flex.skl mkskel.sh flexint_shared.h tables_shared.h tables_shared.c",
          "\tsh ./mkskel.sh $* . m4 2.6.4 > $@",
          "parse.c parse.h: parse.y",
          "\tbison -d -o parse.c parse.y",
          "scan.c: scan.l",
          "\tlex -o scan.c scan.l",
          "skeletons.o: cpp-flex.h c99-flex.h go-flex.h",
          "$(OBJS) scan.o stage1scan.o: parse.h",
          "%.o: %.c",
          "\t$(CC) $(CFLAGS) -c -o $@ $<",
          "stage1flex: $(OBJS) scan.o",
          "\t$(CC) $(CFLAGS) -o $@ $(OBJS) scan.o -lm",
          "stage1scan.c: scan.l stage1flex",
          "\t./stage1flex -o scan.c -t scan.l > stage1scan.c.tmp && mv stage1scan.c.tmp stage1scan.c",
          "flex: $(OBJS) stage1scan.o",
          "\t$(CC) $(CFLAGS) -o $@ $(OBJS) stage1scan.o -lm",
          ""]
    with open(os.path.join(tmp, "Makefile.verif"), "w") as f:
        f.write("\n".join(mk))
    env_asan = "ASAN_OPTIONS=detect_leaks=0 " if variant == "asan" else ""
    with open(os.path.join(tmp, "build.log"), "w") as log:
        try:
            _run(env_asan + "make -f Makefile.verif -j16 flex", tmp, log)
        except BuildError:
            shutil.rmtree(tmp, ignore_errors=True)
            raise
    for fn in os.listdir(tmp):
        if fn.endswith(".o"):
            os.unlink(os.path.join(tmp, fn))
    open(os.path.join(tmp, "OK"), "w").write("%.1f\n" % (time.time() - t0))
    shutil.rmtree(out, ignore_errors=True)
    os.rename(tmp, out)
    _prune(6)
    if verbose:
        print("built flex (%s) in %.1fs -> %s" % (variant, time.time() - t0, out), file=sys.stderr)
    return out


if __name__ == "__main__":
    print(build_flex(sys.argv[1] if len(sys.argv) > 1 else "plain", verbose=True))

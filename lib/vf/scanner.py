"""Turn a case (rule-set source + configuration) into a really generated,
really compiled scanner whose section-3 code (same translation unit as the
static tables and variables) dumps the tables as JSON and records ndjson
traces at the skeleton's documented user seams (YY_USER_ACTION, YY_INPUT,
<<EOF>> actions, yywrap, YY_FATAL_ERROR).  No source hooks in flex are used.
"""
import json, os, re, subprocess, hashlib
from . import pattern as P

HARNESS_DIR = os.path.join(os.path.dirname(os.path.abspath(__file__)), "..", "..", "harness")


class GenError(Exception):
    def __init__(self, msg, stderr="", rc=None):
        super().__init__(msg)
        self.stderr = stderr
        self.rc = rc


def sc_names(src):
    return [s["name"] for s in src["scs"]]


def render_rules(src, posix=False, use_scopes=False, xseed=None, auto=(), vact=None, words=False):
    """section-2 text (list of lines) for the rule set; actions are VACT(k)."""
    names = sc_names(src)
    defnames = ["D%d" % (i + 1) for i in range(len(src.get("defs", [])))]
    lines = []
    layout = src.get("layout") or ([["rule", i + 1] for i in range(len(src["rules"]))] +
                                    [["eof", i + 1] for i in range(len(src.get("eofs", [])))])

    def prefix(scs):
        if not scs: return ""
        if scs == [0]: return "<*>"
        return "<" + ",".join(names[s - 1] for s in scs) + ">"

    done_auto = []
    pending_star = None
    open_scope = None
    def nested_star(k):
        """is rule k (a <*> rule) directly followed in the file by a rule with a proper start-condition list?"""
        for i, e in enumerate(layout):
            if e == ["rule", k] or tuple(e) == ("rule", k):
                if i + 1 < len(layout) and layout[i + 1][0] == "rule":
                    n = src["rules"][layout[i + 1][1] - 1]
                    return bool(n["scs"]) and n["scs"] != [0]
        return False
    for kind, k in layout:
        if kind == "rule":
            r = src["rules"][k - 1]
            pat = P.render(r["head"], posix, defnames, xseed)
            if r.get("dollar"):
                pat += "$"
            elif r["trail"] != ["none"]:
                pat += "/" + P.render(r["trail"], posix, defnames, xseed)
            if r["bol"]:
                pat = "^" + pat
            act = r.get("action") or ("{ %s }" % (vact % k if vact else "VACT(%d)" % k))
            if words and not r.get("action"):
                # ordinary C identifiers that only look like flex's own action words (flex finds REJECT / yymore() uses in the action text)
                act = "{ int reject = %d, Reject = 1, YYMORE = 2, rejected = 3; (void)reject; (void)Reject; (void)YYMORE; (void)rejected; %s }" % (k, act)
            # "auto": the feature is not requested by %option; flex has to find its use in the action text
            if auto and not r.get("action") and not r.get("bar") and not done_auto:
                act = "{ %s if (vnever) { %s } }" % ((vact % k if vact else "VACT(%d)" % k), " ".join({"reject": "REJECT;", "yymore": "yymore();"}[a] for a in auto))
                done_auto.append(1)
            if r.get("bar"): act = "|"          # same action as the next rule
            scoped = use_scopes and r["scs"] and r["scs"] != [0]
            if scoped:
                # consecutive rules with the same start conditions share one scope block
                if open_scope != r["scs"]:
                    if open_scope is not None: lines.append("}")
                    lines.append("%s{" % prefix(r["scs"])); open_scope = list(r["scs"])
                if pending_star is not None:
                    # a <*> rule written inside the scope of the rule that follows it: the prefix applies to that
                    # rule alone, the rest of the scope keeps the scope's conditions
                    lines.append("<*>%s" % pending_star); pending_star = None
                lines.append("%s  %s" % (pat, act))
            elif use_scopes and r["scs"] == [0] and act != "|" and nested_star(k):
                pending_star = "%s  %s" % (pat, act)
            else:
                if open_scope is not None: lines.append("}"); open_scope = None
                lines.append("%s%s  %s" % (prefix(r["scs"]), pat, act))
        else:
            e = src["eofs"][k - 1]
            if open_scope is not None: lines.append("}"); open_scope = None
            lines.append("%s<<EOF>>  { VEOF(%d) }" % (prefix(e["scs"]), k))
    if open_scope is not None: lines.append("}")
    return lines


def render_defs(src, posix=False):
    defnames = ["D%d" % (i + 1) for i in range(len(src.get("defs", [])))]
    return ["%s  %s" % (defnames[i], P.render(d, posix, defnames)) for i, d in enumerate(src.get("defs", []))]


DEFAULT_CFG = dict(
    tbl="",            # table option string, e.g. "-Cem", "-Cf", "-CF", "-Cfea"
    bits=8,            # 7 or 8
    interactive=None,  # None = flex default, True = -I, False = -B
    reject=False, yymore=False, stack=True, yylineno=True,
    array=False,       # %array
    flavour="nr",      # nr | r | c99 | cxx
    posix=False,       # posix-compat repeat precedence
    scopes=False,      # render start conditions as scopes
    userread=True,     # harness owns reads through YY_INPUT
    userwrap=False,    # %option yywrap with the harness's scripted yywrap()
    heap=False,        # harness owns yyalloc/yyrealloc/yyfree (allocation ledger, fault injection)
    tablesfile=False,  # --tables-file: tables are loaded with yytables_fload() at run time
    tablesverify=False,
    useread=False,     # %option read: the scanner's own input routine uses read(2) (needs userread False)
    instances=False,   # C12 harness: several reentrant instances in one process
    extra_opts="",     # further %option text
    actionwords=False, # actions declare C identifiers that resemble flex's action words (reject, Reject, YYMORE)
)


def cfg_key(cfg):
    return hashlib.sha1(json.dumps(cfg, sort_keys=True).encode()).hexdigest()[:10]


def emit_l(src, cfg):
    c = dict(DEFAULT_CFG); c.update(cfg)
    opts = ["noyywrap" if not c.get("userwrap") else "yywrap"]
    for o in ("reject", "yymore", "stack", "yylineno"):
        # True -> option, "no" -> explicit negation, False/None -> leave to flex
        if c[o] == "no": opts.append("no" + o)
        elif c[o] == "auto": pass
        elif c[o]: opts.append(o)
    if c["array"]: opts.append("array")
    if c["posix"]: opts.append("posix-compat")
    if src.get("ci"): opts.append("case-insensitive")
    if c["flavour"] == "r": opts.append("reentrant")
    if c["flavour"] == "cxx": opts.append('c++ yyclass="VLexer"')
    hdr = []
    vact = None
    if c["flavour"] == "c99":
        hdr.append('%option emit="c99"')
        # no macros in this back end: the pre-action, the error exit and the input routine are options
        hdr.append('%option pre-action="VTOKEV" noyypanic' + (" noyyread" if (c.get("userread") or c.get("instances")) else ""))
        if c.get("instances"): hdr.append('%option extra-type="struct vctx *"')
        # yyreject() is expanded by flex in the action text itself
        lessarg = "n_" if c.get("instances") else "va_"
        vact = ("VACT3(%%d, yyreject(), yyless(%s))" if (c["reject"] and c["reject"] != "no") else "VACT3(%%d, (void)0, yyless(%s))") % lessarg
    hdr.append("%option " + " ".join(opts))
    if c.get("heap"):
        hdr.append("%option noyyalloc noyyrealloc noyyfree")
    if c.get("tablesverify"):
        hdr.append("%option tables-verify")
    if c["extra_opts"]:
        hdr.append("%option " + c["extra_opts"])
    if c.get("useread"):
        hdr.append("%option read")
    if c.get("yylmax"):
        hdr.append("%%option yylmax=%d" % c["yylmax"])      # capacity of the %array yytext
    names = sc_names(src)
    for i, s in enumerate(src["scs"]):
        if i == 0: continue
        hdr.append(("%x " if s["excl"] else "%s ") + s["name"])
    if c.get("instances"):
        tmpl = open(os.path.join(HARNESS_DIR, "inst_main.inc")).read()
        top = open(os.path.join(HARNESS_DIR, "inst_top.inc")).read()
    else:
        tmpl = open(os.path.join(HARNESS_DIR, "harness_cpp.inc")).read()
        top = open(os.path.join(HARNESS_DIR, "harness_top.inc")).read()
    out = []
    out += hdr
    out.append("%{")
    out.append("#define VF_NRULES %d" % len(src["rules"]))
    out.append("#define VF_NSC %d" % len(src["scs"]))
    for f in ("reject", "yymore", "stack", "yylineno", "array", "userread", "userwrap", "heap", "useread"):
        if c[f] and c[f] != "no": out.append("#define VF_%s 1" % f.upper())
    out.append("#define VF_FLAVOUR_%s 1" % c["flavour"].upper())
    out.append(top)
    out.append("%}")
    out += render_defs(src, c["posix"])
    out.append("%%")
    out += render_rules(src, c["posix"], c["scopes"], c.get("xseed"), auto=[o for o in ("reject", "yymore") if c[o] == "auto"], vact=vact, words=bool(c.get("actionwords")))
    out.append("%%")
    out.append(tmpl)
    return "\n".join(out) + "\n"


def flex_args(cfg):
    c = dict(DEFAULT_CFG); c.update(cfg)
    a = []
    if c["tbl"]: a.append(c["tbl"])
    a.append("-7" if c["bits"] == 7 else "-8")
    if c["interactive"] is True: a.append("-I")
    elif c["interactive"] is False: a.append("-B")
    if c["flavour"] == "cxx": a.append("-+")
    return a


def detect_defs(ctext):
    """which tables did flex emit?  -> -D flags for the dump code"""
    d = []
    if re.search(r"\byy_transition\[\d*\]\s*=", ctext): d.append("VF_MODE_SPD")
    elif re.search(r"\byy_nxt\[\]\[\d+\]\s*=", ctext): d.append("VF_MODE_FULL")
    else: d.append("VF_MODE_CMP")
    if re.search(r"\byy_ec\[\d+\]\s*=", ctext): d.append("VF_HAS_EC")
    if re.search(r"\byy_meta\[\d+\]\s*=", ctext): d.append("VF_HAS_META")
    if re.search(r"\byy_acclist\[\d+\]\s*=", ctext): d.append("VF_HAS_ACCLIST")
    if re.search(r"\byy_NUL_trans\[\d+\]\s*=", ctext): d.append("VF_HAS_NULTRANS")
    if re.search(r"\byy_rule_can_match_eol\[\d+\]\s*=", ctext): d.append("VF_HAS_EOLTBL")
    return d


def generate(flexdir, src, cfg, workdir, name, san=True, cc_extra=()):
    """flex + gcc.  Returns dict(exe, c, l, stderr, defs).  Raises GenError when
    flex refuses the input (rc != 0) - the caller decides whether refusal is
    what the specification predicts."""
    c = dict(DEFAULT_CFG); c.update(cfg)
    if src.get("sevenbit"): c["bits"] = 7
    if src.get("posix"): c["posix"] = True
    lpath = os.path.join(workdir, name + ".l")
    cpath = os.path.join(workdir, name + (".cc" if c["flavour"] == "cxx" else ".c"))
    exe = os.path.join(workdir, name)
    with open(lpath, "w") as f:
        f.write(emit_l(src, c))
    env = dict(os.environ, LC_ALL="C")
    targs = []
    tpath = os.path.join(workdir, name + ".tables")
    if c.get("tablesfile"): targs = ["--tables-file=" + tpath]
    cmd = [os.path.join(flexdir, "flex")] + flex_args(c) + targs + ["-o", cpath, lpath]
    cmd = ["timeout", "120"] + cmd
    p = subprocess.run(cmd, stdout=subprocess.PIPE, stderr=subprocess.PIPE, text=True, errors="replace",
                       env=env, timeout=120)
    if p.returncode != 0:
        raise GenError("flex rc=%d" % p.returncode, p.stderr, p.returncode)
    ctext = open(cpath, errors="replace").read()
    defs = detect_defs(ctext)
    # (-Werror=overflow: a table initialiser that does not fit its element type is a generation defect, not a warning)
    cc = ["g++" if c["flavour"] == "cxx" else "gcc", "-O0", "-w", "-Werror=overflow", "-g", "-D_GNU_SOURCE"]
    if san: cc += ["-fsanitize=address,undefined", "-fno-sanitize-recover=undefined"]
    if c.get("tablesfile"): defs = ["VF_TABLESFILE", "VF_NODUMP"] + [d for d in defs if d == "VF_HAS_EOLTBL" and False]
    cc += ["-D" + d for d in defs] + ["-I", flexdir] + list(cc_extra) + ["-o", exe, cpath]
    q = subprocess.run(cc, stdout=subprocess.PIPE, stderr=subprocess.STDOUT, text=True, errors="replace", timeout=300)
    if q.returncode != 0:
        raise GenError("compile failed", p.stderr + "\n--- cc:\n" + q.stdout[-3000:], -1)
    return dict(exe=exe, c=cpath, l=lpath, stderr=p.stderr, defs=defs, cmd=cmd, tables=tpath if c.get("tablesfile") else None)


def dump_tables(exe):
    p = subprocess.run([exe, "dump"], stdout=subprocess.PIPE, stderr=subprocess.PIPE, timeout=60)
    if p.returncode != 0:
        raise GenError("table dump failed rc=%d" % p.returncode, p.stderr.decode(errors="replace"), p.returncode)
    return json.loads(p.stdout.decode())

"""C20: lay out the scenarios enumerated by spec/FlexUserCode.tla as
specification files, run flex + cc + the program, and record observations."""
import json, os, re, subprocess, tempfile, shutil


def cstr(t):
    """text -> the source of a C string literal denoting it"""
    out = ""
    for ch in t:
        if ch == "\\": out += "\\\\"
        elif ch == '"': out += '\\"'
        else: out += ch
    return '"' + out + '"'


def comment_safe(t):
    return t.replace("*/", "* /").replace("/*", "/ *")


def layout(text, dollarbar=True):
    """the specification holding `text` in every kind of user-code region.
    Returns (source, {region: (expected text, source line)})."""
    L = []; where = {}
    def add(s): L.append(s)
    def here(): return len(L) + 1       # number of the line about to be added
    E = cstr(text)
    CM = "/* " + comment_safe(text) + " */"
    add("%top{")
    where["top"] = (text, here()); add("static const char *t_top = %s; static int l_top = __LINE__; %s" % (E, CM))
    add("static int vv_top[2] = {0, 1}; static int ww_top(void) { return vv_top[vv_top[0]]; }")
    add("}")
    add("%{")
    add("#include <stdio.h>")
    add("#include <string.h>")
    where["sect1block"] = (text, here()); add("static const char *t_s1b = %s; static int l_s1b = __LINE__; %s" % (E, CM))
    add("static const char *g_s2, *g_act, *g_brace, *g_bar, *g_db; static int gl_s2, gl_act, gl_brace, gl_bar, gl_db;")
    add("%}")
    where["sect1indent"] = (text, here()); add("    static const char *t_s1i = %s; static int l_s1i = __LINE__; %s" % (E, CM))
    add("%option noyywrap")
    add("")
    add("DEFX  [x-z]+")
    add("%%")
    add("%{")
    where["sect2decl"] = (text, here()); add("    static const char *t_s2 = %s; static int l_s2 = __LINE__; %s" % (E, CM))
    add("%}")
    add("")
    # a pattern continued over several lines (extended syntax), a definition use, blank lines: the lines that
    # follow must still be located correctly
    add("(?x: e |")
    add("     f   /* comment */")
    add("     g )    ;")
    add("{DEFX}    ;")
    add("")
    where["action"] = (text, here()); add("a    { g_s2 = t_s2; gl_s2 = l_s2; g_act = %s; gl_act = __LINE__; %s }" % (E, CM))
    add("b    {")
    add("       int k_[2] = {1, 1}; %s" % CM)
    add("       // %s ." % comment_safe(text))        # the text again in a C++-style comment of the action
    where["actionbrace"] = (text, here()); add("       if (k_[k_[0]] == 1) { g_brace = %s; gl_brace = __LINE__; }" % E)
    add("     }")
    add("c    |")
    where["actionbar"] = (text, here()); add("d    { g_bar = %s; gl_bar = __LINE__; %s }" % (E, CM))
    if dollarbar:       # (a $ rule after a | action is compiled as variable trailing context: not with full tables)
        add("e    |")
        where["actiondollarbar"] = (text, here()); add("f$   { g_db = %s; gl_db = __LINE__; %s }" % (E, CM))
    add(".|\\n  ;")
    add("%%")
    where["sect3"] = (text, here()); add("static const char *t_s3 = %s; static int l_s3 = __LINE__; %s" % (E, CM))
    add("static void show(const char *r, const char *t, int l) { size_t i; printf(\"{\\\"region\\\":\\\"%s\\\",\\\"line\\\":%d,\\\"text\\\":[\", r, l);")
    add("  for (i = 0; t && i < strlen(t); i++) printf(\"%s%d\", i ? \",\" : \"\", (unsigned char)t[i]); printf(\"]}\\n\"); }")
    add("#ifdef VF_HDR")
    add("extern const char *h_top(void); extern int h_line(void);     /* a second translation unit that sees the %top text through the generated header */")
    add("#endif")
    add("int main(void) { yy_scan_string(\"abcdf\\n\"); while (yylex()) ; (void)ww_top();")
    add("#ifdef VF_HDR")
    add("  show(\"topheader\", h_top(), h_line());")
    add("#endif")
    add("  show(\"top\", t_top, l_top); show(\"sect1block\", t_s1b, l_s1b); show(\"sect1indent\", t_s1i, l_s1i); show(\"sect2decl\", g_s2, gl_s2);")
    add("  show(\"action\", g_act, gl_act); show(\"actionbrace\", g_brace, gl_brace); show(\"actionbar\", g_bar, gl_bar); if (g_db) show(\"actiondollarbar\", g_db, gl_db); show(\"sect3\", t_s3, l_s3);")
    add("  return 0; }")
    return "\n".join(L) + "\n", where


def observe(flexdir, text, noline=False, cfgargs=(), split=False, header=False):
    """split: the specification is given to flex as two input files (flex in.l in2.l), cut in the rules section;
    code of the second file has to be located by its line in that file"""
    wd = tempfile.mkdtemp(prefix="uc.", dir=os.environ.get("VERIF_SCRATCH", "/tmp"))
    src, where = layout(text, dollarbar=not any("f" in a.lower() for a in cfgargs if a.startswith("-C")))
    # the input file's name holds a byte >= 0x80 (UTF-8 o-umlaut): a #line directive has to name the file as it is called
    lp = os.path.join(wd, "in\u00f6.l"); cp = os.path.join(wd, "scan.c"); exe = os.path.join(wd, "scan")
    inputs = [lp]
    if split:
        ls = src.splitlines(True)
        cut = where["action"][1] - 1          # the line before the first scripted action starts the second file
        open(lp, "w", encoding="latin-1").write("".join(ls[:cut]))
        lp2 = os.path.join(wd, "in2.l"); open(lp2, "w", encoding="latin-1").write("".join(ls[cut:])); inputs.append(lp2)
        where = {r: (t, (ln - cut if ln > cut else ln)) for r, (t, ln) in where.items()}
    else:
        open(lp, "w", encoding="latin-1").write(src)
    hp = os.path.join(wd, "scan.h"); hc = os.path.join(wd, "hdr.c")
    if header:
        # %top blocks are copied to the generated header as well: another translation unit must get the same text
        cfgargs = list(cfgargs) + ["--header-file=" + hp]
        open(hc, "w").write('#include "scan.h"\nconst char *h_top(void) { return t_top; }\nint h_line(void) { return l_top; }\n')
        where["topheader"] = where["top"]
    p = subprocess.run([os.path.join(flexdir, "flex")] + (["-L"] if noline else []) + list(cfgargs) + ["-o", cp] + inputs, stdout=subprocess.PIPE, stderr=subprocess.PIPE,
                       text=True, errors="replace", env=dict(os.environ, LC_ALL="C"), timeout=60)
    flexrc = p.returncode; ccrc = -1; seen = {}; bad = 0; nd = 0; note = p.stderr[:300]
    if flexrc == 0:
        q = subprocess.run(["gcc", "-w", "-o", exe, cp] + (["-DVF_HDR", "-I", wd, hc] if header else []), stdout=subprocess.PIPE, stderr=subprocess.STDOUT, text=True, errors="replace")
        ccrc = q.returncode
        if ccrc != 0: note = q.stdout[:400]
        c = open(cp, encoding="latin-1").read().splitlines()
        names = {os.fsencode(x).decode("latin-1") for x in inputs}
        def unesc(t):     # the C string literal of a #line directive: \\ \" and octal escapes
            return re.sub(r'\\([0-7]{1,3}|.)', lambda m: chr(int(m.group(1), 8) & 0xff) if m.group(1)[0] in "01234567" else m.group(1), t)
        for k, line in enumerate(c, 1):
            m = re.match(r'#line (\d+) "((?:[^"\\]|\\.)*)"', line)
            if m:
                nd += 1
                if os.path.basename(m.group(2)) == "scan.c":
                    if int(m.group(1)) != k + 1: bad += 1
                elif unesc(m.group(2)) not in names:
                    bad += 1; note = "#line names a file that is not an input file: " + line[:200]
        if ccrc == 0:
            r = subprocess.run([exe], stdout=subprocess.PIPE, stderr=subprocess.PIPE, timeout=20)
            for l in r.stdout.decode("latin-1").splitlines():
                try:
                    e = json.loads(l); seen[e["region"]] = e
                except Exception:
                    pass
    obs = []
    for region, (exp, srcline) in where.items():
        e = seen.get(region, {})
        obs.append(dict(region=region, expected=[ord(ch) for ch in exp], observed=e.get("text", [-1]), srcline=srcline,
                        seenline=e.get("line", -1), flexrc=flexrc, ccrc=ccrc, linedirs_bad=bad, linedirs=nd, noline=noline,
                        text=text, note=note, files=inputs))
    return obs, wd

"""Rule-set sources (the JSON read by spec/FlexRules.tla): feature-focused
families that are the same on every run (seed-independent core) plus seeded
random ones."""
import random, copy
from . import pattern as P

NONE = ["none"]
LETTERS = [97, 98, 99]
SPECIALS = [34, 92, 91, 93, 45, 94, 42, 47, 60, 123, 125, 32, 46, 36, 124, 40, 41, 43, 63, 62, 44, 37, 35]


def rule(head, trail=NONE, bol=False, scs=(), dollar=False):
    r = {"head": head, "trail": trail, "bol": bol, "scs": list(scs), "var": False}
    if dollar:
        r["dollar"] = True
        r["trail"] = P.chr_(10)
    return r


def ruleset(rules, scs=(), ci=False, sevenbit=False, defs=(), eofs=(), layout=None, name=""):
    s = {"name": name, "ci": ci, "sevenbit": sevenbit, "defs": list(defs),
         "scs": [{"name": "INITIAL", "excl": False}] + [{"name": n, "excl": x} for n, x in scs],
         "rules": list(rules), "eofs": [{"scs": list(e)} for e in eofs]}
    if layout: s["layout"] = layout
    return s


PROFILES = {
    # name: (feats, alphabet, opts)
    "lit":    (["chr", "str"], LETTERS + [10], {}),
    "esc":    (["chr", "str"], SPECIALS + [97], {}),
    "dot":    (["chr", "dot", "star", "plus", "grp"], LETTERS + [10], {}),
    "ccl":    (["chr", "ccl", "negccl", "star"], LETTERS + [10, 65, 48], {}),
    "posix":  (["chr", "ccl", "posix", "negccl", "plus"], [97, 65, 48, 32, 9, 10, 33, 127, 1], {}),
    "setop":  (["chr", "ccl", "posix", "negccl", "setop", "plus"], [97, 98, 65, 48, 10, 32], {}),
    "ops":    (["chr", "alt", "star", "plus", "opt"], LETTERS, {}),
    "rep":    (["chr", "alt", "rep", "star"], LETTERS[:2], {}),
    "repx":   (["chr", "alt", "rep", "ccl"], LETTERS[:2], {"posix": True}),
    "grp":    (["chr", "ccl", "dot", "grp", "alt", "star", "str"], [97, 98, 65, 66, 10], {}),
    "ci":     (["chr", "str", "ccl", "posix", "negccl", "alt", "plus", "grp", "rep"], [97, 98, 65, 66, 48, 10], {"ci": True}),
    "ref":    (["chr", "ccl", "alt", "star", "ref", "opt"], LETTERS + [10], {"ndefs": 2}),
    "nul":    (["chr", "str", "ccl", "negccl", "dot", "star", "alt"], [0, 97, 98, 10], {}),
    "high":   (["chr", "str", "ccl", "negccl", "dot", "plus", "alt"], [128, 255, 97, 0, 10, 200], {}),
    "seven":  (["chr", "ccl", "negccl", "dot", "posix", "star", "alt"], [97, 98, 10, 0, 127], {"sevenbit": True}),
    "sc":     (["chr", "alt", "star", "ccl"], LETTERS + [10], {"nsc": 2, "p_sc": 0.7}),
    "sc3":    (["chr", "plus", "dot"], LETTERS[:2] + [10], {"nsc": 3, "p_sc": 0.8, "eofs": True}),
    "bol":    (["chr", "alt", "star", "ccl", "dot"], LETTERS[:2] + [10], {"p_bol": 0.5}),
    "trail":  (["chr", "alt", "star", "plus", "opt", "ccl"], LETTERS + [10], {"p_trail": 0.6, "p_dollar": 0.2, "p_bar": 0.25}),
    "bar":    (["chr", "alt", "plus", "ccl"], LETTERS + [10], {"p_trail": 0.5, "p_dollar": 0.1, "p_bar": 0.5, "p_bol": 0.2}),
    "anch":   (["chr", "plus", "star", "ccl", "alt"], LETTERS[:2] + [10], {"p_trail": 0.4, "p_dollar": 0.3, "p_bol": 0.4, "nsc": 1, "p_sc": 0.4}),
    "mix":    (None, LETTERS + [10, 0, 65, 200, 34], {"p_trail": 0.25, "p_dollar": 0.1, "p_bol": 0.2, "nsc": 2, "p_sc": 0.4, "ndefs": 1, "eofs": True, "p_bar": 0.15}),
}


def gen_ruleset(rng, profile, name=""):
    feats, alphabet, o = PROFILES[profile]
    ci = o.get("ci", False)
    seven = o.get("sevenbit", False)
    ndefs = o.get("ndefs", 0)
    nsc = o.get("nsc", 0)
    g = P.Gen(rng, alphabet, set(feats) if feats else None, ci=ci or (feats is None) or ("grp" in (feats or [])),
              sevenbit=seven, ndefs=0)
    g.ci = ci
    cisafe = ci or feats is None or "grp" in (feats or [])
    # definitions (no references to later definitions)
    defs = []
    for i in range(ndefs):
        gd = P.Gen(rng, alphabet, (set(feats) if feats else set(g.f)) - {"ref"}, ci=cisafe, sevenbit=seven)
        defs.append(gd.nonnull(1))
    g.ndefs = ndefs
    _patch_ci(g, cisafe)
    scs = [("S%d" % (i + 1), rng.random() < 0.5) for i in range(nsc)]
    nrules = rng.randint(*o.get("nrules", (2, 5)))
    rules = []
    for k in range(nrules):
        depth = rng.choice([1, 2, 2, 3])
        head = g.nonnull(depth, defs)
        trail = NONE; dollar = False
        x = rng.random()
        if x < o.get("p_dollar", 0):
            dollar = True
        elif x < o.get("p_dollar", 0) + o.get("p_trail", 0):
            trail = g.nonnull(rng.choice([0, 1, 2]), defs)
        bol = rng.random() < o.get("p_bol", 0)
        rs = []
        if nsc and rng.random() < o.get("p_sc", 0):
            y = rng.random()
            if y < 0.2: rs = [0]
            else:
                rs = sorted(rng.sample(range(1, nsc + 2), rng.randint(1, min(2, nsc + 1))))
        rules.append(rule(head, trail, bol, rs, dollar))
    eofs = []
    if o.get("eofs") and rng.random() < 0.7:
        # qualified ones first, then possibly an unqualified one
        cand = list(range(1, nsc + 2)); rng.shuffle(cand)
        for s in cand[:rng.randint(0, len(cand))]:
            eofs.append([s])
        if rng.random() < 0.5: eofs.append([])
    layout = [["rule", i + 1] for i in range(len(rules))]
    for j in range(len(eofs)):
        layout.insert(rng.randint(0, len(layout)), ["eof", j + 1])
    # keep <<EOF>> rules in their relative order
    idx = [i for i, e in enumerate(layout) if e[0] == "eof"]
    for n, i in enumerate(idx): layout[i] = ["eof", n + 1]
    # '|' actions: a rule shares the action of the rule that follows it in the file
    for i, e in enumerate(layout[:-1]):
        # (not across a change of start conditions: with <SC>{ ... } scopes flex, like 2.6.4, does not take the
        # scope for the next "rule")
        if e[0] == "rule" and layout[i + 1][0] == "rule" \
                and rules[e[1] - 1]["scs"] == rules[layout[i + 1][1] - 1]["scs"] and rng.random() < o.get("p_bar", 0):
            rules[e[1] - 1]["bar"] = True
    rs = ruleset(rules, scs, ci=ci, sevenbit=seven, defs=defs, eofs=eofs, layout=layout, name=name)
    rs["profile"] = profile
    if o.get("posix"): rs["posix"] = True
    return rs


def _patch_ci(g, cisafe):
    orig = g.ccl_items
    g.ccl_items = lambda ci: orig(ci or cisafe)


def proto_ruleset(rng, name=""):
    """keyword-table shapes: several prefixes share most of their continuations, so that the compressed
    representation stores their DFA states as differences against a prototype / template (tblcmp.c), with jam
    entries among the differences"""
    c = P.chr_
    conts = rng.sample(range(97, 123), rng.randint(8, 14))
    pres = rng.sample([35, 64, 36, 37, 38, 33], rng.randint(2, 4))
    rules = [rule(c(b)) for b in conts]                      # every continuation its own equivalence class
    for p_ in pres:
        sub = [b for b in conts if rng.random() < 0.8] or conts[:1]
        if rng.random() < 0.5:
            rules.append(rule(P.cat(c(p_), P.ccl([P.cb(b) for b in sub]))))
        else:
            for b in sub[:rng.randint(1, len(sub))]: rules.append(rule(P.cat(c(p_), c(b))))
            rest = sub[len(sub) // 2:]
            if rest and rng.random() < 0.6: rules.append(rule(P.cat(c(p_), P.plus(P.ccl([P.cb(b) for b in rest])))))
    rng.shuffle(rules)
    rs = ruleset(rules, name=name)
    rs["profile"] = "proto"
    return rs


def proto_family(n, seed0=7000):
    return [proto_ruleset(random.Random(seed0 + i), name="core-proto-%d" % i) for i in range(n)]


def core_family(per_profile=4, seed0=1000):
    """the seed-independent families: same rule sets on every run"""
    out = []
    for pi, prof in enumerate(sorted(PROFILES)):
        for i in range(per_profile):
            rng = random.Random(seed0 + 97 * pi + i)
            out.append(gen_ruleset(rng, prof, name="core-%s-%d" % (prof, i)))
    return out


def random_family(seed, n):
    out = []
    profs = sorted(PROFILES)
    for i in range(n):
        rng = random.Random((seed * 1000003 + i) & 0x7fffffff)
        prof = profs[rng.randrange(len(profs))]
        out.append(gen_ruleset(rng, prof, name="rnd-%d-%s-%d" % (seed, prof, i)))
    return out


def context_family(full=False):
    """operator contexts, enumerated: every kind of atom (character, quoted string, class, ...) under every closure
    operator, inside a group that is itself under every closure operator, with text before / after it inside the
    group or an alternative beside it.  The NFA construction has a special case for almost each of these pairs
    (mkopt / mkclos / mkposcl / mkrep on machines that begin or end with an epsilon state: quoted strings, groups)."""
    c = P.chr_
    atoms = [("chr", c(97)), ("str", P.str_([97, 98])), ("ccl", P.ccl([P.cb(97), P.cb(98)]))]
    ops = [("star", P.star), ("plus", P.plus), ("opt", P.opt), ("r02", lambda a: P.rep(a, 0, 2))]
    if full:
        atoms += [("dot", P.dot()), ("grpstr", P.grp(P.str_([97, 98]))), ("str1", P.str_([97]))]
        ops += [("r22", lambda a: P.rep(a, 2, 2)), ("r1u", lambda a: P.rep(a, 1, -1))]
    x = c(99)
    shapes = [lambda i, o: o(P.cat(i, x)), lambda i, o: o(P.grp(i)), lambda i, o: o(P.cat(x, i)), lambda i, o: o(P.alt(i, x))]
    rules = []
    for an, a in atoms:
        for n1, o1 in ops:
            for n2, o2 in ops:
                for sh in shapes:
                    rules.append((an, sh(o1(a), o2)))
    out = []
    per = 8
    for k in range(0, len(rules), per):
        chunk = rules[k:k + per]
        rs = ruleset([rule(P.cat(h, c(107 + j))) for j, (_, h) in enumerate(chunk)] + [rule(P.alt(P.dot(), c(10)))],
                     name="core-ctx-%s-%d" % (chunk[0][0], k // per))
        rs["profile"] = "ctx"
        out.append(rs)
    return out


def manysc_family():
    """more start conditions than the generator's per-condition tables hold at first (40): exclusive ones declared
    early and late, <<EOF>> rules on some, unscoped rules before and after them"""
    L = P.lit
    out = []
    for n, xs in ((45, (3, 42, 44)), (41, (2, 41))):
        scs = [("C%d" % i, i in xs) for i in range(2, n + 2)]
        late = xs[-1]; mid = xs[1] if len(xs) > 2 else 40
        rules = [rule(L("a")), rule(L("b"), scs=[xs[0]]), rule(L("c"), scs=[mid]), rule(L("d"), scs=[late, 5]), rule(L("e")),
                 rule(L("f"), scs=[0]), rule(L("ab"), scs=[late - 1])]
        rs = ruleset(rules, scs=scs, eofs=[[5], [mid], []], name="hw-many-sc-%d" % n,
                     layout=[["rule", 1], ["eof", 1], ["rule", 2], ["rule", 3], ["rule", 4], ["rule", 5], ["rule", 6], ["rule", 7], ["eof", 2], ["eof", 3]])
        rs["profile"] = "sc"
        out.append(rs)
    return out


def nulclass_family():
    """NUL sharing its byte equivalence class with other bytes (flex files NUL as the *last* character of the alphabet, so the
    shared class is numbered by its other members), with 2 ... 9 classes in all: the table generators decide from the class
    numbering whether NUL needs transitions of its own"""
    c = P.chr_
    out = []
    lows = [P.plus(P.ccl([P.cr(97, 122)])), P.plus(P.ccl([P.cr(48, 57)])), P.ccl([P.cr(65, 70)]), c(32), c(33), c(35), c(36)]
    for n in range(0, 8):
        for hi in (P.ccl([P.cr(128, 255), P.cb(0)]), P.ccl([P.cr(1, 127)], neg=True)):
            for wrap in (P.plus, lambda a: a):
                if n % 2 and wrap is not P.plus: continue
                rules = [rule(x) for x in lows[:n]] + [rule(P.ccl([P.cr(1, 127)])), rule(wrap(hi))]
                rs = ruleset(rules, name="hw-nulclass-%d-%d" % (n, len(out)))
                rs["profile"] = "nul"
                out.append(rs)
    return out


def big_family():
    """rule sets whose tables outgrow 16-bit elements although they have few states: (a) keywords next to an identifier rule
    (wide rows: without equivalence classes yy_nxt/yy_chk pass 32767 entries at about 600 states), (b) many rules accepting in
    the same states (REJECT: yy_acclist passes 32767 entries)"""
    rng = random.Random(4242)
    kw = set()
    while len(kw) < 150: kw.add(bytes(rng.choice(b"abcdefghijklmnopqrstuvwxyz") for _ in range(rng.randint(5, 8))))
    kw = sorted(kw)
    ident = P.plus(P.ccl([P.cr(97, 122)]))
    a = ruleset([rule(P.lit(k)) for k in kw] + [rule(ident), rule(P.alt(P.dot(), P.chr_(10)))], name="hw-big-keywords")
    b = ruleset([rule(P.lit(k)) for k in kw[:120]] + [rule(ident) for _ in range(60)] + [rule(P.alt(P.dot(), P.chr_(10)))], name="hw-big-acclists")
    a["profile"] = b["profile"] = "big"
    return [a, b]


def handwritten():
    """transcriptions of shapes that matter (anchors, trailing context, start
    conditions, REJECT order), independent of any seed"""
    L = P.lit; c = P.chr_
    out = []
    out.append(ruleset([
        rule(L("ab"), bol=True), rule(P.plus(c(97)), P.cat(P.plus(c(98)), c(99))),
        rule(L("ab"), scs=[2]), rule(c(98), c(99), scs=[3, 2]), rule(P.plus(c(99)), dollar=True, scs=[0]),
        rule(P.alt(c(97), L("ab")), scs=[3]), rule(L("abc")), rule(c(10), scs=[0]), rule(P.dot(), scs=[0])],
        scs=[("S1", False), ("X1", True)], eofs=[[]], name="hw-proto"))
    out.append(ruleset([
        rule(L("abc")), rule(P.cat(L("de"), ), P.plus(c(102))), rule(L("gh")), rule(L("ij"), L("kl")),
        rule(P.plus(P.ccl([P.cr(97, 122)]))), rule(c(10))], name="hw-trail-mix"))
    out.append(ruleset([
        rule(P.plus(c(97)), bol=True), rule(P.plus(c(97))), rule(c(98), dollar=True), rule(c(98)),
        rule(c(10))], name="hw-anchors"))
    out.append(ruleset([
        rule(L("a")), rule(L("ab")), rule(L("abcd")), rule(P.ccl([P.cb(10)], neg=True))], name="hw-backup"))
    out.append(ruleset([
        rule(P.cat(c(97), c(0))), rule(P.cat(c(97), c(0), L("bc"))), rule(c(97)), rule(P.alt(P.dot(), c(10)))],
        name="hw-nul-backup"))
    out.append(ruleset([
        rule(P.plus(P.ccl([P.cr(97, 122)])), P.cat(P.plus(P.ccl([P.cr(48, 57)])), c(120))),
        rule(P.alt(P.dot(), c(10)))], name="hw-vartrail-cover"))
    out.append(ruleset([
        rule(P.plus(c(97)), P.cat(P.plus(c(98)), c(99))), rule(P.cat(P.plus(c(97)), P.plus(c(98)), c(99))),
        rule(P.plus(c(97))), rule(P.alt(P.dot(), c(10)))], name="hw-vartrail-reject"))
    bar1 = rule(L("abc")); bar1["bar"] = True
    bar2 = rule(L("gh")); bar2["bar"] = True
    out.append(ruleset([bar1, rule(L("de"), P.plus(c(102))), bar2, rule(L("ij"), L("kl")), rule(P.plus(P.ccl([P.cr(97, 122)]))), rule(c(10))],
                       name="hw-bar-trailing"))
    # several variable-trailing-context rules whose matches overlap: ties between them, and one rule's trail end
    # lying inside another's match
    az = P.plus(P.ccl([P.cr(97, 122)])); dg = P.plus(P.ccl([P.cr(48, 57)])); sp = P.star(c(32))
    out.append(ruleset([rule(az, P.cat(sp, c(61))), rule(az, P.cat(sp, P.ccl([P.cb(61), P.cb(40)]))), rule(az), rule(P.alt(P.dot(), c(10)))],
                       name="hw-vartrail-tie"))
    out.append(ruleset([rule(az, P.cat(dg, c(59))), rule(az, dg), rule(az), rule(dg), rule(P.alt(P.dot(), c(10)))],
                       name="hw-vartrail-nested"))
    # a <*> rule directly before rules of start conditions that are not the first ones declared (rendered nested
    # in their scope by the scopes layout)
    out.append(ruleset([rule(L("k")), rule(L("s"), scs=[0]), rule(L("p"), scs=[3, 4]), rule(L("q"), scs=[3, 4]), rule(L("r"), scs=[2]),
                        rule(L("t"), scs=[0]), rule(L("u"), scs=[4]), rule(P.alt(P.dot(), c(10)), scs=[0])],
                       scs=[("A", False), ("B", True), ("C", False)], name="hw-star-in-scope"))
    # rules that can never be selected (shadowed by an earlier one) next to '|' actions: the warning has to name them
    sb1 = rule(L("while")); sb1["bar"] = True
    sb2 = rule(L("bar"), scs=[2]); sb2["bar"] = True
    out.append(ruleset([rule(L("if")), sb1, rule(L("if")), rule(L("foo"), scs=[2]), sb2, rule(L("foo"), scs=[2]), rule(az), rule(P.alt(P.dot(), c(10)), scs=[0])],
                       scs=[("STR", True)], name="hw-shadow-bar"))
    out.append(ruleset([
        rule(L("x"), bol=True), rule(L("y"), scs=[2]), rule(L("z"), scs=[3]), rule(P.alt(P.dot(), c(10)), scs=[0])],
        scs=[("A", False), ("B", True)], eofs=[[1], [3], []],
        layout=[["eof", 1], ["rule", 1], ["rule", 2], ["eof", 2], ["rule", 3], ["rule", 4], ["eof", 3]],
        name="hw-eof-bol"))
    # the textually identical bracket expression inside and outside a (?i: / (?-i: group: the set it denotes depends on the
    # case scope it is written in, not on its text (a generator that shares classes by their source text confuses them)
    hexd = lambda: P.ccl([P.cr(48, 57), P.cr(97, 102)]); xz = lambda: P.ccl([P.cr(120, 122)])
    out.append(ruleset([
        rule(P.cat(L("0x"), P.grp(P.plus(hexd()), i=1))), rule(P.plus(hexd())), rule(P.grp(xz(), i=1)), rule(xz()),
        rule(P.alt(P.dot(), c(10)))], name="hw-ccl-scope"))
    out.append(ruleset([
        rule(P.cat(L("0x"), P.plus(hexd()))), rule(P.grp(P.plus(hexd()), i=1)), rule(xz()), rule(P.cat(L("-"), P.grp(xz(), i=1))),
        rule(P.alt(P.dot(), c(10)))], name="hw-ccl-scope-rev"))
    return out
